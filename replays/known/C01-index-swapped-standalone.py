"""Stand-alone reproduction of the C01 known finding (public API only, no harness seam).
    /venv/bin/python replays/known/C01-index-swapped-standalone.py     -> prints what parse() returned; exit 1 = reproduced"""
import hashlib
import sqlite3
import sys
import tempfile
from pathlib import Path

sys.path[0:0] = ["/repo/src", "/repo"]
import pymoca  # noqa: E402

pymoca.__version__ = "9.9.9"  # a clean label: a '.dirty' working tree bypasses the cache
import pymoca.parser as P  # noqa: E402

TEXTS = ["model M%d\n  Real x%d(start = %d);\nequation\n  der(x%d) = -x%d;\nend M%d;\n" % (i, i, i, i, i, i) for i in range(3)]
folder = Path(tempfile.mkdtemp())
for t in TEXTS:
    P.parse(t, model_cache_folder=folder)  # this process has now verified the database file
db = folder / P.DEFAULT_MODEL_CACHE_DB
c = sqlite3.connect(db)
ps = c.execute("PRAGMA page_size").fetchone()[0]
root = c.execute("SELECT rootpage FROM sqlite_master WHERE name='sqlite_autoindex_models_1'").fetchone()[0]
rows = {h: r for r, h in c.execute("SELECT rowid, txt_hash FROM models")}
c.close()
raw = bytearray(db.read_bytes())
pos = []
for t in TEXTS[1:]:  # rows 2 and 3
    h = hashlib.sha256(t.encode("utf-8")).hexdigest()
    key = (h + "9.9.9").encode()
    k = raw.find(key, (root - 1) * ps, root * ps)
    assert k >= 0 and raw[k + len(key)] == rows[h]
    pos.append(k + len(key))
raw[pos[0]], raw[pos[1]] = raw[pos[1]], raw[pos[0]]  # exchange the row numbers of two index entries
db.write_bytes(bytes(raw))
print("integrity_check now says:", sqlite3.connect(db).execute("PRAGMA integrity_check").fetchall()[:1])
tree = P.parse(TEXTS[1], model_cache_folder=folder)
print("parse(text of M1) returned classes", list(tree.classes))
sys.exit(1 if list(tree.classes) != ["M1"] else 0)
