"""Model pool for the model-cache engines (C19 / C20 / C21).

Each entry: the model name, its files in the model folder and in the library folder as
templates, and the placeholders an edit may change.  Every placeholder is numerically visible in
the compiled model (a coefficient, an attribute, a string), so a stale model differs from a fresh
compile under the comparator.  `extra` toggles a structural edit (an added state)."""

EXTRA_DECL = "  Real e_x(start = {e});\n"
EXTRA_EQ = "  der(e_x) = -{e} * e_x;\n"

POOL = {
    "Tank": {
        "model": {"Tank.mo": """model Tank
  parameter Real A = {a};
  parameter Real hmax = {b};
  Real h(start = hmax * 0.5, min = 0, max = hmax, nominal = A * 2);
{EXTRA_DECL}  input Real q(fixed = true);
  output Real y;
  parameter Real cap;
  Real hm;
  Real hx;
equation
  A * der(h) = q - {c} * h // leak{NLSP}  - 0.{e}
  ;
{EXTRA_EQ}  y = {d} * h;
  hm = min(h, cap);
  hx = max(h * {a}, hmax) + abs(q);
end Tank;
"""},
        "lib": {},
    },
    "Arr": {
        "model": {"Arr.mo": """model Arr
  parameter Real p[3] = {{{a}, {b}, {c}}};
  parameter Real lim = {d};
  Real x[3](each start = {d}, each max = lim * 10);
  Real z[2](each max = lim * 20, each nominal = lim);
  Real w(max = lim * 30, min = -lim);
  Real s;
{EXTRA_DECL}equation
  for i in 1:3 loop
    der(x[i]) = -p[i] * x[i];
  end for;
{EXTRA_EQ}  s = x[1] + x[2] + {c} * x[3];
  z[1] = s * {a};
  z[2] = x[1] - {b};
  w = z[1] + {d};
end Arr;
"""},
        "lib": {},
    },
    "Ali": {
        "model": {"Ali.mo": """model Ali
  Real x(start = {a});
  Real y;
  Real z(max = {b}0);
  Real w(min = -{b});
{EXTRA_DECL}equation
  der(x) = -{c} * x;
  y = x;
  z = -y;
  w = z + {d};
{EXTRA_EQ}end Ali;
"""},
        "lib": {},
    },
    "Mix": {
        "model": {"Mix.mo": """model Mix
  parameter Real q = {a};
  parameter Integer n = {b};
  parameter Boolean flag = true;
  Real a(min = q, max = 5 * q, nominal = q * {c});
  Real p(start = {d});
  Real vp;
  Real w(max = q * {b});
  Integer cnt(start = n);
  Boolean on;
  input Real u(fixed = false);
  output Real y;
{EXTRA_DECL}equation
  a = {c}.0;
  der(p) = vp;
  vp = -{d} * p + u;
  w = -vp;
  cnt = {a};
  on = p > {b};
  y = p + a * {d};
{EXTRA_EQ}end Mix;
"""},
        "lib": {},
    },
    "Big": {
        # large enough for the pickled cache file to span several pickle frames (several write calls)
        "model": {"Big.mo": """model Big
  parameter Real k = {a};
  parameter Real lim = {b};
  Real x[120](each start = {c}, each max = lim * 3);
  Real s;
{EXTRA_DECL}equation
  for i in 1:120 loop
    der(x[i]) = -k * x[i] * i + {d};
  end for;
{EXTRA_EQ}  s = x[1] + x[120];
end Big;
"""},
        "lib": {},
    },
    "Del": {
        "model": {"Del.mo": """model Del
  parameter Real tau = {a};
  constant Real kc = {d};
  Real x(start = 1);
  Real xd;
  Real xe;
  input Real u;
{EXTRA_DECL}equation
  der(x) = u - {b} * x;
  xd = delay(x, tau * {c});
  xe = delay(x * kc, {c}.5);
{EXTRA_EQ}end Del;
"""},
        "lib": {},
    },
    "Str": {
        "model": {"Str.mo": """model Str
  parameter String name = "abc{SP}{a}";
  constant String kind = "k{b}";
  parameter Real k = {c};
  parameter Integer n = {a};
  parameter Boolean on = true;
  Real x(start = k);
{EXTRA_DECL}equation
  der(x) = -k * x * {d};
{EXTRA_EQ}end Str;
"""},
        "lib": {},
    },
    "UsesLib": {
        "model": {"UsesLib.mo": """model UsesLib
  extends LibBase(k = {a});
  LibComp c(g = {b});
  Real y;
{EXTRA_DECL}equation
  y = c.out + x * {c};
{EXTRA_EQ}end UsesLib;
"""},
        "lib": {"LibBase.mo": """model LibBase
  parameter Real k = 1;
  Real x(start = {a});
equation
  der(x) = -k * x * {b};
end LibBase;
""", "sub/LibComp.mo": """model LibComp
  parameter Real g = 1;
  Real out;
  Real s(start = {a});
equation
  der(s) = -g * s;
  out = {b} * s;
end LibComp;
"""},
    },
    "Iter": {
        # a second simplification pass matters (option iterative_simplification, which the API honours although it is not
        # among its declared defaults)
        "model": {"Iter.mo": """model Iter
  parameter Real k = {a};
  Real x(start = {b});
  Real z;
  Real f;
  Real g;
  Real h;
{EXTRA_DECL}equation
  der(x) = k + z * {c};
  f = 0;
  g = {d};
  f = (z - h);
  h = g;
{EXTRA_EQ}end Iter;
"""},
        "lib": {},
    },
    "TwoLibs": {
        # the library is spread over two library folders: the package's own file in one, a class declared `within` it in
        # the other
        "model": {"TwoLibs.mo": """model TwoLibs
  Plant.Pump p(g = {a});
  Plant.Tnk t;
  Real y;
{EXTRA_DECL}equation
  y = p.out + t.h * {b} + Plant.c0;
{EXTRA_EQ}end TwoLibs;
"""},
        "lib": {"Plant.mo": """package Plant
  constant Real c0 = {c};
  model Tnk
    Real h(start = {a});
  equation
    der(h) = -{b} * h;
  end Tnk;
end Plant;
"""},
        "lib2": {"Pump.mo": """within Plant;
model Pump
  parameter Real g = 1;
  Real out(start = {a});
equation
  der(out) = -g * out * {b};
end Pump;
"""},
    },
    "Pkg.Inner": {
        # a model inside a package: the model name (and with it the cache file name) contains a dot
        "model": {"Pkg.mo": """package Pkg
  constant Real c0 = {c};
  model Base
    parameter Real k = {a};
    Real x(start = {b});
  equation
    der(x) = -k * x;
  end Base;
  model Inner
    extends Base(k = {d});
    Real y(max = {b}0);
{EXTRA_DECL}  equation
    y = x * Pkg.c0;
{EXTRA_EQ}  end Inner;
end Pkg;
"""},
        "lib": {},
    },
    "SameName": {
        # a file of the same name (same path relative to its folder) in the model folder and in the library folder
        "model": {"SameName.mo": """model SameName
  PartM pm(g = {a});
  PartL pl;
  Real y;
{EXTRA_DECL}equation
  y = pm.out + pl.out * {b};
{EXTRA_EQ}end SameName;
""", "Parts.mo": """model PartM
  parameter Real g = 1;
  Real out(start = {c});
equation
  der(out) = -g * out * {d};
end PartM;
"""},
        "lib": {"Parts.mo": """model PartL
  Real out(start = {a});
equation
  der(out) = -{b} * out;
end PartL;
"""},
    },
    "NeedsAdd": {
        "model": {"NeedsAdd.mo": """model NeedsAdd
  Added m(g = {a});
  Real y;
{EXTRA_DECL}equation
  y = m.out * {b};
{EXTRA_EQ}end NeedsAdd;
"""},
        "lib": {},
        # files that do not exist at first; `add` creates them (the compile fails until then)
        "late": {"model:Added.mo": """model Added
  parameter Real g = 1;
  Real out(start = {a});
equation
  der(out) = -g * out * {b};
end Added;
"""},
    },
}

OPTION_SETS = [
    {},
    {"expand_vectors": True},
    {"detect_aliases": True},
    {"replace_constant_values": True, "eliminate_constant_assignments": True},
    {"replace_parameter_expressions": True, "expand_vectors": True, "detect_aliases": True},
    {"resolve_parameter_values": True, "replace_parameter_values": True},
    {"eliminate_constant_assignments": True},
    {"detect_aliases": True, "eliminate_constant_assignments": True, "expand_vectors": True},
    {"eliminate_constant_assignments": True, "factor_and_simplify_equations": True, "replace_constant_expressions": True,
     "replace_constant_values": True, "detect_aliases": True},
    {"eliminate_constant_assignments": True, "factor_and_simplify_equations": True, "replace_constant_expressions": True,
     "replace_constant_values": True, "detect_aliases": True, "iterative_simplification": True},
]


def render(template, vals, extra):
    t = template.replace("{EXTRA_DECL}", EXTRA_DECL if extra else "").replace("{EXTRA_EQ}", EXTRA_EQ if extra else "")
    # whitespace that matters: a line break that ends a // comment (without it the rest of the line is commented out),
    # blanks inside a string literal
    ws = vals.get("ws", 0)
    t = t.replace("{NLSP}", " " if ws else "\n").replace("{SP}", "  " if ws else " ")
    return t.format(**{k: v for k, v in vals.items() if k != "ws"})
