// A package for the add_redecl_symbol edit (engines/copy_hist.py): RTarget receives, through the AST API, components of
// type RHolder whose replaceable model T is redeclared to RAlt; RAlt is then edited in one tree of the forest.
package RP
  model RFoo
    Real x = 1;
  end RFoo;
  model RAlt
    Real x = 2;
    Real y = 3;
  equation
    y = x;
  end RAlt;
  model RHolder
    replaceable model T = RFoo;
    T t;
  end RHolder;
  model RTarget
    Real m = 0;
    RAlt direct;
  end RTarget;
end RP;
