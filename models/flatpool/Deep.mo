package Deep
  constant Real g = 9.81;

  connector Pin
    Real v;
    flow Real i;
  end Pin;

  partial model TwoPin
    Pin p;
    Pin n;
    Real u;
  equation
    u = p.v - n.v;
    p.i + n.i = 0;
  end TwoPin;

  model R
    extends TwoPin;
    parameter Real r = 1;
  equation
    u = r * p.i;
  end R;

  model C
    extends TwoPin;
    parameter Real c = 1;
    Real q(start = 0);
  equation
    q = c * u;
    der(q) = p.i;
  end C;

  model Gnd
    Pin p;
  equation
    p.v = 0;
  end Gnd;

  model RC
    R r1(r = 2);
    C c1(c = 3, q(start = 1));
    Gnd gnd;
  equation
    connect(r1.n, c1.p);
    connect(c1.n, gnd.p);
    connect(r1.p, gnd.p);
  end RC;

  model RC1b
    extends RC(r1(r = 5), c1(c = 7));
  end RC1b;

  model RC2
    extends RC;
    R r2(r = g);
  equation
    connect(r2.p, r1.n);
    connect(r2.n, gnd.p);
  end RC2;

  model Bank
    RC2 cells[2];
    RC lone(c1(q(start = 4)));
  end Bank;

  model L0
    parameter Real a = 1;
    Real x(start = a, nominal = 2);
  equation
    der(x) = -a * x;
  end L0;

  model L1
    extends L0(a = 2);
    parameter Real b = a + 1;
    Real y(min = -b, max = b);
  equation
    y = b * x;
  end L1;

  model L2
    extends L1(b = 10, x(start = 3));
    Real z;
  equation
    z = y + g;
  end L2;

  model L3
    extends L2(a = 4, y(max = 50));
    L1 part(a = 6, x(nominal = 9));
  end L3;

  model Arr
    parameter Integer n = 3;
    Real v[n](each start = 1);
    Real s;
    L0 items[2](each a = 2);
  equation
    for i in 1:n loop
      der(v[i]) = -i * v[i];
    end for;
    s = sum(v);
  end Arr;

  model Cond
    parameter Boolean on = true;
    Real x;
    Real y;
  equation
    if on then
      x = 1;
    else
      x = 2;
    end if;
    y = if x > 1 then 3 else 4;
  end Cond;

  model UsesPi
    parameter Real r = 2;
    Real c;
  equation
    c = 2 * Modelica.Constants.pi * r;
  end UsesPi;

  model UsesSI
    Modelica.SIunits.Length len = 1;
  end UsesSI;

  model Broken1
    extends L1(nosuch = 3);
  end Broken1;

  model Broken2
    L0 item(x(nosuch = 1));
    Undefined u;
  end Broken2;
end Deep;
