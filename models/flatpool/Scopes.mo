package Scopes
  constant Real c0 = 3;

  model B
    parameter Real k = 2;
    Real x(start = 1);
  equation
    der(x) = -k * x;
  end B;

  model E
    extends B(k = 5);
    Real y;
  equation
    y = 2 * x;
  end E;

  model N
    Scopes.B b;
    Scopes.E e;
    Real s;
  equation
    s = b.x + e.y;
  end N;

  package Sub
    model M
      B b1(k = 4);
      Scopes.B b2;
      Real t;
    equation
      t = b1.x - b2.x;
    end M;

    model D
      extends E;
      Real z;
    equation
      z = y + 1;
    end D;

    package Deep
      model Q
        B far;
        Sub.M m;
        Real u;
      equation
        u = far.x + m.t;
      end Q;
    end Deep;
  end Sub;
end Scopes;
