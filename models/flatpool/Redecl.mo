package Redecl
  model Medium
    parameter Real rho = 1000;
  end Medium;

  model Oil
    extends Medium(rho = 800);
    parameter Real mu = 3;
  end Oil;

  model Pipe
    replaceable model M = Medium;
    M med;
    Real q;
    Real dp;
  equation
    dp = med.rho * q;
  end Pipe;

  model OilPipe
    extends Pipe(redeclare model M = Oil);
  end OilPipe;

  model Net
    Pipe p1;
    OilPipe p2;
    Real total;
  equation
    total = p1.q + p2.q;
    p1.dp = 1;
    p2.dp = 2;
  end Net;
end Redecl;
