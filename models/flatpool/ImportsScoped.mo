package Units
  type Length = Real(unit = "m");
  type Time = Real(unit = "s");
  constant Real c0 = 3;
end Units;

package U
  type Speed = Real(unit = "km/h");
  type Length = Real(unit = "ft");
end U;

package Lib
  import U = Units;
  import Units.Time;

  model Timer
    U.Time t = 1;
    Time t2 = 2;
  end Timer;

  model Broken
    U.Nothing n = 1;
  end Broken;

  model Road
    U.Length x = 1;
    Real y = U.c0;
  end Road;

  model Car
    U.Speed v = 1;
  end Car;

  model Trip
    Road r;
    Timer t;
    Real avg;
  equation
    avg = r.x / t.t;
  end Trip;

  model BadTrip
    extends Trip;
    Missing.Thing m;
  end BadTrip;

  package Inner
    import L = Lib;
    model Lap
      L.Timer tm;
      U.Length d = 2;
    end Lap;
    model BadLap
      L.NoSuch x;
    end BadLap;
  end Inner;
end Lib;

package Lib2
  import Units.*;

  model Clock
    Time t = 1;
    Length l = 2;
  end Clock;

  model NoClock
    Duration d = 1;
  end NoClock;

  model Tower
    Clock c1;
    Clock c2(t = 5);
  end Tower;
end Lib2;
