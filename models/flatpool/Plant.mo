model Valve
  parameter Real k = 1;
  Real q;
equation
  q = k;
end Valve;

model Drain
  Real q;
equation
  q = 0;
end Drain;

model Vessel
  Valve v(k = 2);
  Valve w(k = 3, q(start = 1));
  Real level(start = 5);
equation
  der(level) = v.q - w.q;
end Vessel;

model BigVessel
  extends Vessel(level(start = 9));
  parameter Real area = 2;
  Valve extra(k = 6);
end BigVessel;

model NestedVessel
  extends Vessel(v(k = 4));
end NestedVessel;

model Station
  replaceable model Unit = Drain;
  Unit u;
  Real out;
equation
  out = u.q;
end Station;

model Plant
  extends Station(redeclare model Unit = Vessel);
end Plant;

model Plant2
  extends Station(redeclare model Unit = BigVessel);
  Vessel spare(v(k = 7));
end Plant2;

model Yard
  Station s1(redeclare model Unit = Vessel);
  Station s2;
  Real sum;
equation
  sum = s1.out + s2.out;
end Yard;

model Site
  Plant a;
  Plant2 b;
  Station c;
  Real total;
equation
  total = a.out + b.out + c.out;
end Site;

package Works
  model Gauge
    parameter Real scale = 10;
    Real reading;
  equation
    reading = scale;
  end Gauge;

  model Meter
    Gauge g(scale = 20);
    Real m;
  equation
    m = g.reading;
  end Meter;

  model Rack
    replaceable model Slot = Gauge;
    Slot s1;
    Slot s2;
  end Rack;

  model MeterRack
    extends Rack(redeclare model Slot = Meter);
  end MeterRack;

  model Hall
    MeterRack r;
    Rack plain;
    Meter loose(g(scale = 30));
  end Hall;
end Works;
