package Imp
  package A
    constant Real ka = 2;
    model MA
      Real x(start = 1);
    equation
      der(x) = -x;
    end MA;
  end A;

  package B
    model MB
      Real y;
    equation
      y = 2;
    end MB;
    model MB2
      Real z;
    equation
      z = 3;
    end MB2;
  end B;

  model User
    import Imp.A.*;
    import Imp.B.*;
    MA a;
    MB b;
    Real s;
  equation
    s = a.x + b.y;
  end User;

  model User2
    import Imp.A.*;
    import Imp.B.*;
    MA a1;
    MA a2;
  end User2;

  model Qual
    import Imp.A.MA;
    import BB = Imp.B;
    MA m;
    BB.MB2 n;
  end Qual;
end Imp;

package LibA
  model MA
    Real x(start = 1);
  equation
    der(x) = -x;
  end MA;
end LibA;

package LibB
  model MB
    Real y;
  equation
    y = 2;
  end MB;
end LibB;

package App
  import LibA.*;
  import LibB.*;

  model U1
    MA a;
    Real s;
  equation
    s = a.x;
  end U1;

  model U2
    MB b;
    MA a;
  end U2;

  model U3
    extends U1;
    MB extra;
  end U3;
end App;
