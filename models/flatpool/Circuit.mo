package Circuit
  connector Pin
    Real v;
    flow Real i;
  end Pin;

  model TwoPin
    Pin p, n;
    Real v;
  equation
    v = p.v - n.v;
    p.i + n.i = 0;
  end TwoPin;

  model Resistor
    extends TwoPin;
    parameter Real R = 10;
  equation
    v = R * p.i;
  end Resistor;

  model Capacitor
    extends TwoPin;
    parameter Real C = 0.5;
  equation
    C * der(v) = p.i;
  end Capacitor;

  model Ground
    Pin p;
  equation
    p.v = 0;
  end Ground;

  model RC
    Resistor r(R = 3);
    Capacitor c(C = 2);
    Ground g;
  equation
    connect(r.n, c.p);
    connect(c.n, g.p);
    connect(r.p, g.p);
  end RC;

  model Port
    Pin a;
    Pin b;
    Resistor r(R = 7);
  equation
    connect(a, r.p);
    connect(r.n, b);
  end Port;

  model Twice
    Port u(r(R = 4));
    Port w;
    Ground g;
  equation
    connect(u.b, w.a);
    connect(w.b, g.p);
    connect(u.a, g.p);
  end Twice;
end Circuit;
