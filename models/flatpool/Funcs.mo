function sq
  input Real u;
  output Real y;
algorithm
  y := u * u;
end sq;

function lim
  input Real u;
  input Real hi;
  output Real y;
algorithm
  y := if u > hi then hi else u;
end lim;

model UseF
  Real x(start = 1);
  Real y;
  parameter Real top = 4;
equation
  der(x) = -sq(x);
  y = lim(x, top);
end UseF;

model UseF2
  UseF a(top = 2);
  UseF b;
  Real z;
equation
  z = a.y + sq(b.x);
end UseF2;
