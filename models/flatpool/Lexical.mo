package Lx
  // the same type name declared at several levels, models that inherit an enclosing class and declare the
  // name again, composite names whose first part is found nearby but whose second part is not in there
  type N = Real(min = 0);

  package Lex
    type N = Real(min = 1);
    model X
      model Z
        model M1
          N v;
        equation
          v = 2;
        end M1;
        M1 m;
      end Z;
      Z z;
      N own;
    equation
      own = 3;
    end X;
    model Y
      extends X;
      type N = Real(max = 9);
      N mine;
    equation
      mine = 4;
    end Y;
  end Lex;

  package X
    type N = Real(max = 5);
    constant Real kx = 7;
  end X;

  package Inner
    type N = Real(min = 1);
    package X
      model M1
        N v;
      equation
        v = 1;
      end M1;
      model M3
        M1 a;
        M1 b;
      end M3;
    end X;
    model M2
      X.N w;
    equation
      w = 5;
    end M2;
    model M4
      X.M3 c;
      N d;
    equation
      d = 6;
    end M4;
  end Inner;

  package Outer
    model Base
      N p;
    equation
      p = 8;
    end Base;
    package Deep
      type N = Real(nominal = 3);
      model D1
        extends Base;
        N q;
      equation
        q = 9;
      end D1;
      package Deeper
        model D2
          D1 d;
          N r;
          Lx.Lex.Y y;
        equation
          r = 10;
        end D2;
      end Deeper;
    end Deep;
  end Outer;
end Lx;
