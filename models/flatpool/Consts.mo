package CLib
  model Pipe
    constant Real g = 9.81;
    parameter Real d = 0.5;
    Real q(start = 1);
  equation
    der(q) = -g * d * q;
  end Pipe;

  model Reader
    Real x;
    Real y;
  equation
    x = 2 * Pipe.g;
    y = x + CLib.Pipe.g;
  end Reader;

  model OnMoon
    Pipe p(g = 1.62);
    Pipe e;
    Real dq;
  equation
    dq = p.q - e.q;
  end OnMoon;

  model MoonPipe
    extends Pipe(g = 1.62, d = 2);
  end MoonPipe;

  block Gain
    input Real u;
    output Real y;
    parameter Real k = 3;
  equation
    y = k * u;
  end Gain;

  model Loop
    Gain g1(k = 2);
    Gain g2;
    Real s(start = 0);
  equation
    g1.u = s;
    g2.u = g1.y;
    der(s) = -g2.y;
  end Loop;

  model Base
    Real v(start = 1);
    Real w;
  end Base;

  model Dynamic
    extends Base;
  equation
    der(v) = -w;
    w = 2 * v;
  end Dynamic;

  model Static
    extends Base;
  equation
    v = 3;
    w = v + 1;
  end Static;
end CLib;
