package Types
  type Length = Real(unit = "m", min = 0);
  type Speed = Real(unit = "m/s");
  constant Real g0 = 9.81;

  model Body
    Length h(start = 10);
    Speed v(start = 0);
    parameter Real m = 2;
  equation
    der(h) = v;
    m * der(v) = -m * g0;
  end Body;

  model Heavy
    extends Body(m = 20, h(start = 5));
  end Heavy;

  model Pair
    Body a(m = 3, h(start = 1));
    Heavy b;
    Real dist;
  equation
    dist = a.h - b.h;
  end Pair;

  model Outer
    model Inner
      parameter Real k = 1;
      Real x(start = k);
    equation
      der(x) = -k * x;
    end Inner;
    Inner i1(k = 2);
    Inner i2;
    Real s;
  equation
    s = i1.x + i2.x;
  end Outer;
end Types;
