#!/venv/bin/python
"""Regenerates MANIFEST.json from simkit.registry (kept in sync by hand-run)."""
import json, os, sys
sys.path.insert(0, os.path.dirname(os.path.abspath(__file__)))
from simkit.registry import CHECKS, NOT_APPLICABLE, MANIFEST_TEXT

checks = []
for pid in sorted(CHECKS):
    c = CHECKS[pid]
    m = MANIFEST_TEXT[pid]
    checks.append({
        "property_id": pid,
        "quick_cmd": "timeout 1500 bin/check %s --tier quick" % pid,
        "thorough_cmd": "timeout 7200 bin/check %s --tier thorough" % pid,
        "evidence_file": "/verif/evidence/%s.json" % pid,
        "replay_cmd_template": "bin/check %s --replay {path}" % pid,
        "engine": c["engine"],
        "level_claimed": {"category": c["level"], "text": m["level_text"], "design_ref": m["design_ref"]},
        "level_note": m["level_note"],
        "technique": m["technique"],
    })
engines = {}
for pid, c in CHECKS.items():
    engines.setdefault(c["engine"], []).append(pid)
man = {
    "version": 1,
    "setup_cmd": "/venv/bin/python bin/setup_check",
    "hooks": {"guard": "PYMOCA_VERIF_SIM", "enable": "no hooks are needed: every seam (sqlite3.connect, time, os, builtins.open, os.scandir) is patched from outside on the library objects; checks import pymoca from /repo's working tree ($VERIF_REPO/src) directly",
              "baseline_off_cmd": "cd /repo && /venv/bin/python -m pytest -ra -q -p no:cacheprovider --timeout=900 --continue-on-collection-errors",
              "source_commits": [], "add_only": True},
    "engines": [{"name": n, "path": "/verif/engines/%s.py" % n, "serves_properties": sorted(p),
                 "kind_free_text": "deterministic simulation engine (seeded plans, baton scheduler / fault seams, reference-model oracle)"}
                for n, p in sorted(engines.items())],
    "checks": checks,
    "notes": "Technique family: deterministic simulation with fault injection. See DESIGN.md. Exit 2 = harness error (never 'held').",
    "not_applicable": [{"property_id": k, "reason": v} for k, v in sorted(NOT_APPLICABLE.items()) if k not in CHECKS],
}
json.dump(man, open(os.path.join(os.path.dirname(os.path.abspath(__file__)), "MANIFEST.json"), "w"), indent=1)
print("checks:", [c["property_id"] for c in checks], "n/a:", len(man["not_applicable"]))
