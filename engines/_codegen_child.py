"""One simulated process of a codegen history (see engines/mcache.py run_codegen)."""
import json
import os
import sys

VERIF = os.path.dirname(os.path.dirname(os.path.abspath(__file__)))
sys.path.insert(0, VERIF)

with open(sys.argv[1]) as f:
    job = json.load(f)
os.environ["VERIF_REPO"] = job["repo"]
from engines import mcache  # noqa: E402

e = mcache.Engine()
e.setup_worker()
cwd = job.get("cwd") or job["sandbox"]
os.makedirs(cwd, exist_ok=True)
os.chdir(cwd)
out = e.codegen_segment(job)
print("SEGMENT-JSON " + json.dumps(out, default=str))
