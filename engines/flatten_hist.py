"""C05 — flattening never changes what later flattening produces (DESIGN 3.C05).

Request histories (flatten / casadi generate / sympy generate / xml generate, several callers) on ONE
shared parsed tree; reference = every request answered from a fresh copy of the parse.  CLI leg:
tools.compiler.main with several -m requests against single requests."""
import copy
import glob
import io
import logging
import os
import pickle
import random
import shutil

from simkit import canon, core, procs, util
from simkit.runner import ddmin_list, VERIF

CASADI_OPTS = [{}, {"expand_vectors": True}, {"unroll_loops": False}, {"inline_functions": False}]
OPS = ["flatten", "flatten", "flatten", "casadi", "sympy", "xml"]


def all_classes(node, prefix=()):
    for n, c in node.classes.items():
        yield ".".join(prefix + (n,))
        yield from all_classes(c, prefix + (n,))


class Engine:
    name = "flatten_hist"

    def __init__(self):
        self.libs = None
        self.cache = {}
        self.runs = 0

    # -- libraries ----------------------------------------------------------------------------
    def lib_files(self):
        if self.libs is None:
            repo = procs.repo_root()
            own = sorted(glob.glob(os.path.join(VERIF, "models", "flatpool", "*.mo")))
            tm = sorted(glob.glob(os.path.join(repo, "test", "models", "*.mo")))
            self.libs = own + tm
        return self.libs

    def load_lib(self, li):
        """(pickled pristine tree, class list) or None if the file does not parse."""
        if li not in self.cache:
            import pymoca.parser as P

            path = self.lib_files()[li]
            with open(path, encoding="utf-8") as f:
                txt = f.read()
            try:
                tree = P.parse(txt)
            except Exception:
                tree = None
            if tree is None:
                self.cache[li] = None
            else:
                self.cache[li] = (pickle.dumps(tree), list(all_classes(tree)), txt)
        return self.cache[li]

    # -- runner interface -----------------------------------------------------------------------
    def configs(self, tier, prop):
        n_libs = len(self.lib_files())
        if tier == "quick":
            return [("sweep", n_libs * 3), ("seeded", 1500), ("cli", 300)]
        return [("sweep", n_libs * 12), ("seeded", 50_000), ("cli", 8000)]

    def chunk_size(self, config, tier):
        return 20

    def distinct_measure(self, prop):
        return "request_after_history"

    def setup_worker(self):
        procs.import_pymoca("0.0.verif.dirty")
        import pymoca.parser  # noqa: F401
        import pymoca.tree  # noqa: F401
        import pymoca.backends.casadi.generator  # noqa: F401
        import pymoca.backends.sympy.generator  # noqa: F401
        import pymoca.backends.xml.generator  # noqa: F401
        import tools.compiler  # noqa: F401

        util.silence_antlr()
        lg = logging.getLogger("pymoca")
        lg.addHandler(logging.NullHandler())
        lg.propagate = False
        self.lib_files()
        self.ref_world = procs.RefWorld()

    # -- plans -------------------------------------------------------------------------------------
    def gen_plan(self, rng, config, tier, prop):
        n_libs = len(self.lib_files())
        if config == "sweep":
            # every class of every library: repeat it, and mix it with the others, in three fixed shapes
            return {"kind": "hist", "lib": None, "sweep": True, "shape_seed": rng.randrange(1 << 30)}
        if config == "cli":
            return {"kind": "cli", "lib": rng.randrange(n_libs), "pick_seed": rng.randrange(1 << 30),
                    "target": rng.choice([None, None, "sympy"])}
        return {"kind": "hist", "lib": rng.randrange(n_libs), "sweep": False, "shape_seed": rng.randrange(1 << 30)}

    def expand(self, plan):
        """Fill in the request list (needs the class list of the library, known only to the worker)."""
        if "ops" in plan:
            return plan
        p = dict(plan)
        if plan.get("sweep"):
            p["lib"] = plan["index"] % len(self.lib_files())
        lib = self.load_lib(p["lib"])
        rng = random.Random(plan["shape_seed"])
        if lib is None:
            p["ops"] = []
            return p
        _, classes, _ = lib
        ops = []
        if plan.get("sweep"):
            variant = plan["index"] // len(self.lib_files())
            if variant % 3 == 0:  # every class twice in a row
                for c in classes:
                    ops += [{"op": "flatten", "class": c}, {"op": "flatten", "class": c}]
            elif variant % 3 == 1:  # all classes, then all again in reverse
                ops = [{"op": "flatten", "class": c} for c in classes] + [{"op": "flatten", "class": c} for c in classes[::-1]]
            else:  # backends mixed in
                for c in classes:
                    ops += [{"op": rng.choice(["casadi", "sympy", "xml", "flatten"]), "class": c, "opt": 0},
                            {"op": "flatten", "class": c}]
                rng.shuffle(ops)
            ops = ops[:60]
        else:
            few = rng.sample(classes, min(len(classes), rng.randint(1, 3)))
            for _ in range(rng.randint(2, 10)):
                ops.append({"op": rng.choice(OPS), "class": rng.choice(few if rng.random() < 0.8 else classes),
                            "opt": rng.randrange(len(CASADI_OPTS))})
        p["ops"] = ops
        return p

    def shrink_candidates(self, plan):
        if plan["kind"] == "hist":
            for cand in ddmin_list(plan["ops"]):
                p = copy.deepcopy(plan)
                p["ops"] = copy.deepcopy(cand)
                yield p
            for i, op in enumerate(plan["ops"]):
                if op["op"] != "flatten":
                    p = copy.deepcopy(plan)
                    p["ops"][i] = {"op": "flatten", "class": op["class"]}
                    yield p
        else:
            if len(plan.get("models", [])) > 2:
                for cand in ddmin_list(plan["models"]):
                    if len(cand) >= 2:
                        p = copy.deepcopy(plan)
                        p["models"] = cand
                        yield p

    # -- one request ---------------------------------------------------------------------------------
    def request(self, tree, op, T=None):
        """('ok', canonical) or ('fail', exception type name).  T: the pymoca.tree module instance for plain flatten
        requests (procs.tree_module: the run's own for the shared tree, a pristine one for the reference); the backends
        are bound to the shared module."""
        import pymoca.ast as A

        if T is None:
            import pymoca.tree as T

        try:
            if op["op"] == "flatten":
                return "ok", canon.tree_digest(T.flatten(tree, A.ComponentRef.from_string(op["class"])))
            if op["op"] == "casadi":
                import pymoca.backends.casadi.generator as G

                m = G.generate(tree, op["class"], dict(CASADI_OPTS[op.get("opt", 0)]))
                return "ok", self.model_digest(m)
            if op["op"] == "sympy":
                import pymoca.backends.sympy.generator as S

                return "ok", canon.digest(S.generate(tree, op["class"], {}))
            if op["op"] == "xml":
                import pymoca.backends.xml.generator as X

                return "ok", canon.digest(X.generate(tree, op["class"]))
        except Exception as e:  # incl. RecursionError: endless lookups are an outcome of the code under test too
            return "fail", type(e).__name__
        raise ValueError(op)

    @staticmethod
    def model_digest(m):
        import casadi as ca
        import numpy as np

        parts = []
        for cat in ("states", "der_states", "alg_states", "inputs", "constants", "parameters"):
            parts.append([(v.symbol.name(), tuple(v.symbol.shape), v.python_type.__name__) for v in getattr(m, cat)])
        parts.append(list(m.outputs))
        parts.append([str(e) for e in m.equations])
        parts.append([str(e) for e in m.initial_equations])
        for name in ("dae_residual", "initial_residual"):
            f = getattr(m, name + "_function")
            rng = random.Random(5)
            args = [ca.DM(f.sparsity_in(i), [0.3 + rng.random() for _ in range(f.sparsity_in(i).nnz())]) for i in range(f.n_in())]
            out = f.call(args)
            parts.append([["nan" if x != x else round(float(x), 9) for x in np.array(ca.DM(o)).ravel()] for o in out])
        return canon.digest(parts)

    # -- execution -------------------------------------------------------------------------------------
    def execute(self, plan, replay=False):
        self.runs += 1
        if plan["kind"] == "cli":
            return self.run_cli(plan)
        plan = self.expand(plan)
        log = core.EventLog(keep=True)
        counts = {}
        distinct = set()
        viol = None
        lib = self.load_lib(plan["lib"]) if plan["lib"] is not None else None
        libname = os.path.basename(self.lib_files()[plan["lib"]]) if plan["lib"] is not None else "?"
        if lib is not None and plan["ops"]:
            pk, classes, _txt = lib
            shared = pickle.loads(pk)
            before = []
            sut_tree_mod = procs.tree_module()  # this run is one simulated process
            for opi, op in enumerate(plan["ops"]):
                got = self.request(shared, op, sut_tree_mod)
                with self.ref_world:
                    # the reference process: its own copy of the pymoca package; only the digest leaves the block
                    want = self.request(pickle.loads(pk), op, procs.tree_module())
                log.add(opi, 0, op["op"], "%s %s %s" % (op["class"], got[0], want[0]))
                counts["requests"] = counts.get("requests", 0) + 1
                if want[0] == "fail":
                    counts["reference_fails"] = counts.get("reference_fails", 0) + 1
                if before:
                    distinct.add(canon.digest((libname, tuple(sorted(before)), op["class"], op["op"])))
                    counts["probe:request_on_used_tree"] = counts.get("probe:request_on_used_tree", 0) + 1
                    if op["class"] in [b for b in before]:
                        counts["probe:repeated_class"] = counts.get("probe:repeated_class", 0) + 1
                if got != want:
                    repeated = op["class"] in before
                    shape = [op["op"], "repeat" if repeated else "after_other", want[0] + "->" + got[0]]
                    if got[0] == "fail" and want[0] == "ok":
                        kind, detail = "exception", "raises %s, on a fresh parse it succeeds" % got[1]
                    elif got[0] == "ok" and want[0] == "fail":
                        kind, detail = "wrong_result", "succeeds, on a fresh parse it raises %s" % want[1]
                    elif got[0] == "fail":
                        kind, detail = "exception", "raises %s, on a fresh parse it raises %s" % (got[1], want[1])
                        # both fail: the property only needs 'both fail'
                        before.append(op["class"])
                        continue
                    else:
                        kind, detail = "wrong_result", "result differs from the result on a fresh parse"
                    viol = (kind, "tree:flatten", shape, "%s: request %d %s(%s) after %s %s" % (
                        libname, opi, op["op"], op["class"], [o["class"] for o in plan["ops"][:opi]][-6:], detail))
                    break
                before.append(op["class"])
        res = {"property": plan.get("property", "C05"), "verdict": "ok", "plan": plan, "counts": counts,
               "digest": log.digest(), "sim_time_s": 0.0, "steps": len(plan.get("ops", [])),
               "distinct": {"request_after_history": sorted(distinct)}}
        if viol:
            res["verdict"] = "violation"
            res["kind"], res["site"], res["shape"], res["detail"] = viol
            res["log_tail"] = log.tail(30)
        return res

    # -- CLI leg ----------------------------------------------------------------------------------------
    def cli(self, argv, cwd):
        import tools.compiler as C

        old = os.getcwd()
        os.chdir(cwd)
        lg = logging.getLogger("pymoca")
        lvl = lg.level
        try:
            try:
                return ("status", C.main(argv))
            except SystemExit as e:
                return ("exit", e.code)
            except Exception as e:
                return ("raised", type(e).__name__)
        finally:
            lg.setLevel(lvl)
            os.chdir(old)

    def run_cli(self, plan):
        lib = self.load_lib(plan["lib"])
        log = core.EventLog(keep=True)
        counts = {}
        viol = None
        distinct = set()
        libname = os.path.basename(self.lib_files()[plan["lib"]])
        if lib is not None:
            _, classes, txt = lib
            rng = random.Random(plan["pick_seed"])
            models = plan.get("models") or rng.sample(classes, min(len(classes), rng.randint(2, 3)))
            plan = dict(plan, models=models)
            sandbox = util.new_sandbox()
            src = os.path.join(sandbox, "lib.mo")
            with open(src, "w") as f:
                f.write(txt)
            target = ["-t", "sympy"] if plan["target"] == "sympy" else []

            def run(ms, tag):
                out = os.path.join(sandbox, "out_" + tag)
                shutil.rmtree(out, ignore_errors=True)
                os.makedirs(out)
                argv = [src] + sum([["-m", m] for m in ms], []) + target + ["-o", out]
                r = self.cli(argv, sandbox)
                files = {}
                for fn in sorted(os.listdir(out)):
                    with open(os.path.join(out, fn), "rb") as fh:
                        files[fn] = fh.read()
                return r, files

            singles = {m: run([m], "s%d" % i) for i, m in enumerate(models)}
            for order_tag, order in (("fwd", models), ("rev", models[::-1])):
                joint, jfiles = run(order, order_tag)
                log.add(0, 0, "joint", "%s %s" % (order, joint))
                counts["probe:joint_invocation"] = counts.get("probe:joint_invocation", 0) + 1
                distinct.add(canon.digest((libname, tuple(order), plan["target"])))
                shape = ["cli", plan["target"] or "flatten", order_tag]
                if not target:
                    if all(s[0][0] == "status" for s in singles.values()) and joint[0] == "status":
                        want = sum(s[0][1] for s in singles.values())
                        if joint[1] != want:
                            viol = ("wrong_exit_status", "compiler:main", shape,
                                    "%s: -m %s gives status %r, the single requests give %r" % (
                                        libname, " -m ".join(order), joint[1], {m: singles[m][0][1] for m in order}))
                    elif joint[0] != "status" and all(s[0][0] == "status" for s in singles.values()):
                        viol = ("exception", "compiler:main", shape, "%s: joint request %s ends with %r, every single "
                                "request returns normally" % (libname, order, joint))
                else:
                    if all(s[0] == ("status", 0) for s in singles.values()):
                        if joint != ("status", 0):
                            viol = ("wrong_exit_status", "compiler:main", shape, "%s: every single -t sympy request returns 0, "
                                    "the joint request %s gives %r" % (libname, order, joint))
                        else:
                            # what each model gets when requested alone must be in the joint output, unchanged (two
                            # models must not end up in one file), and nothing else
                            want_files = {}
                            diff = []
                            for m in order:
                                for fn, content in singles[m][1].items():
                                    if jfiles.get(fn) != content:
                                        diff.append(fn)
                                want_files.update(singles[m][1])
                            diff += [k for k in jfiles if k not in want_files]
                            if diff:
                                viol = ("wrong_result", "compiler:main", shape, "%s: output files %s of the joint request %s "
                                        "differ from those of the single requests" % (libname, sorted(diff), order))
                    elif joint[0] == "raised" and singles[order[0]][0][0] != "raised":
                        # the joint run let an exception escape: the first model it reached must do the same alone,
                        # unless an earlier model of the joint run is the one that raises alone
                        first_raiser = next((m for m in order if singles[m][0][0] == "raised"), None)
                        if first_raiser is None:
                            viol = ("exception", "compiler:main", shape, "%s: joint request %s raises %s, no single request "
                                    "does" % (libname, order, joint[1]))
                if viol:
                    break
        res = {"property": plan.get("property", "C05"), "verdict": "ok", "plan": plan, "counts": counts,
               "digest": log.digest(), "sim_time_s": 0.0, "steps": 0, "distinct": {"request_after_history": sorted(distinct)}}
        if viol:
            res["verdict"] = "violation"
            res["kind"], res["site"], res["shape"], res["detail"] = viol
            res["log_tail"] = log.tail(30)
        return res
