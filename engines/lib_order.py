"""C27 — assembling a library from several files is order-independent (DESIGN 3.C27).

The order in which files reach Tree.extend is the schedule: direct merges in every permutation,
and the directory walk of the CasADi API and of the compiler tool with os.scandir's order chosen
by the plan.  Reference: the same library rendered as ONE file."""
import copy
import itertools
import logging
import os
import pickle
import random

from simkit import canon, core, fsim, mcanon, procs, util
from simkit.runner import ddmin_list

SKIP = canon.SKIP + ("order",)  # the per-file declaration counter is not part of the flattened model


# ---------------------------------------------------------------------------------------------------
# library generator
# ---------------------------------------------------------------------------------------------------
def gen_spec(rng):
    """A package library as data: packages with constants, and class bodies as templates whose
    references are rendered relative or fully qualified."""
    pid = rng.randrange(100, 999)
    P = "P%d" % pid
    has_q = rng.random() < 0.75
    spec = {"P": P, "has_q": has_q,
            "p_consts": {"c%d" % i: rng.randint(1, 9) for i in range(1, rng.randint(2, 3) + 1)},
            "q_consts": {"k%d" % i: rng.randint(1, 9) for i in range(1, rng.randint(1, 2) + 1)} if has_q else {},
            "fq": [rng.random() < 0.5 for _ in range(12)],  # per reference site: fully qualified or relative
            "lits": [rng.randint(1, 9) for _ in range(8)],
            "classes": []}
    base_in_q = has_q and rng.random() < 0.7
    # a package-level import in P's own definition that classes of P rely on (part of what a placeholder lacks)
    spec["p_import"] = bool(base_in_q and rng.random() < 0.4)
    if base_in_q and rng.random() < 0.2:
        # P's own declaration consists of an import clause and nested classes only: nothing but the import tells it
        # from a `within` placeholder
        spec["p_import"] = True
        spec["p_consts"] = {}
    spec["q_last"] = rng.random() < 0.4
    spec["classes"].append({"name": "T", "where": "P", "tpl": "type"})
    spec["classes"].append({"name": "Base", "where": "Q" if base_in_q else "P", "tpl": "base"})
    spec["classes"].append({"name": "Mid", "where": "P", "tpl": "mid"})
    if rng.random() < 0.8:
        spec["classes"].append({"name": "Top", "where": "P", "tpl": "top"})
    if rng.random() < 0.5:
        spec["classes"].append({"name": "Pin", "where": "Q" if has_q and rng.random() < 0.4 else "P", "tpl": "pin"})
        spec["classes"].append({"name": "Conn", "where": "P", "tpl": "conn"})
    if has_q and rng.random() < 0.5:
        spec["classes"].append({"name": "Leaf", "where": "Q", "tpl": "leaf"})
    return spec


def render_class(spec, c, indent):
    P = spec["P"]
    where = {x["name"]: x["where"] for x in spec["classes"]}
    fq = spec["fq"]
    L = spec["lits"]
    me_in_q = c["where"] == "Q"

    def ref(name, site):
        w = where.get(name, "P")
        if name == "Base" and spec.get("p_import") and not me_in_q:
            return "Base"  # found through `import P.Q.Base;` of the enclosing package
        if fq[site % len(fq)]:
            return "%s.%s%s" % (P, "Q." if w == "Q" else "", name)
        if w == "Q" and not me_in_q:
            return "Q." + name
        return name

    def const(site):
        """a constant reference: P-level or Q-level, dotted or relative"""
        pc = sorted(spec["p_consts"])
        qc = sorted(spec["q_consts"])
        use_q = qc and (site % 3 == 0)
        if use_q:
            n = qc[site % len(qc)]
            if fq[(site + 5) % len(fq)] or spec.get("const_fq"):
                return "%s.Q.%s" % (P, n)
            return n if me_in_q else "Q." + n
        if not pc:
            if not qc:
                return str(L[site % len(L)])
            n = qc[site % len(qc)]
            return "%s.Q.%s" % (P, n) if (fq[(site + 5) % len(fq)] or spec.get("const_fq") or not me_in_q) else n
        n = pc[site % len(pc)]
        if fq[(site + 7) % len(fq)] or spec.get("const_fq"):
            return "%s.%s" % (P, n)
        return n

    t = c["tpl"]
    n = c["name"]
    if t == "type":
        body = "type %s = Real(min = 0, max = %d00);" % (n, L[0])
        return "\n".join(indent + ln for ln in body.split("\n"))
    if t == "pin":
        lines = ["connector %s" % n, "  Real v;", "  flow Real i;", "end %s;" % n]
    elif t == "base":
        lines = ["model %s" % n, "  parameter Real a = %s * %d;" % (const(1), L[1]), "  Real x(start = %s);" % const(2),
                 "equation", "  der(x) = -a * x + %s;" % const(3), "end %s;" % n]
    elif t == "mid":
        lines = ["model %s" % n, "  extends %s(a = %s);" % (ref("Base", 0), const(4)), "  %s y;" % ref("T", 1),
                 "equation", "  y = x * %s + %d;" % (const(6), L[2]), "end %s;" % n]
    elif t == "top":
        lines = ["model %s" % n, "  %s m;" % ref("Mid", 2), "  %s b(a = %d);" % (ref("Base", 3), L[3]), "  Real s;",
                 "equation", "  s = m.x + b.x + %s;" % const(8), "end %s;" % n]
    elif t == "conn":
        lines = ["model %s" % n, "  %s p;" % ref("Pin", 4), "  %s q;" % ref("Pin", 5), "  %s inner1;" % ref("Base", 6),
                 "equation", "  connect(p, q);", "  p.v = inner1.x * %s;" % const(9), "end %s;" % n]
    elif t == "leaf":
        lines = ["model %s" % n, "  Real z(start = %s);" % const(0), "  parameter Real g = %s;" % const(4),
                 "equation", "  der(z) = -g * z * %d;" % L[4], "end %s;" % n]
    else:
        raise ValueError(t)
    return "\n".join(indent + ln for ln in lines)


def render_single(spec):
    P = spec["P"]
    out = ["package %s" % P]
    if spec.get("p_import"):
        out.append("  import %s.Q.Base;" % P)
    for k, v in sorted(spec["p_consts"].items()):
        out.append("  constant Real %s = %d;" % (k, v))
    if spec["has_q"]:
        out.append("  package Q")
        for k, v in sorted(spec["q_consts"].items()):
            out.append("    constant Real %s = %d;" % (k, v))
        for c in spec["classes"]:
            if c["where"] == "Q":
                out.append(render_class(spec, c, "    "))
        out.append("  end Q;")
    for c in spec["classes"]:
        if c["where"] == "P":
            out.append(render_class(spec, c, "  "))
    out.append("end %s;" % P)
    return "\n".join(out) + "\n"


def render_split(spec, assign):
    """assign: {"q_own": bool (Q in its own `within P;` file), "files": {class name: file index >= 1 or 0 for the
    package's own file}}.  Returns list of (relative path, text, is_own_file_of_P)."""
    P = spec["P"]
    files = {}
    own = ["package %s" % P]
    if spec.get("p_import"):
        own.append("  import %s.Q.Base;" % P)
    for k, v in sorted(spec["p_consts"].items()):
        own.append("  constant Real %s = %d;" % (k, v))
    q_own = spec["has_q"] and assign["q_own"]
    q_lines = None
    if spec.get("q_last"):
        # P's own classes come before the nested package in P's own file
        for c in spec["classes"]:
            if c["where"] == "P" and assign["files"].get(c["name"], 0) == 0:
                own.append(render_class(spec, c, "  "))
    if spec["has_q"]:
        ql = ["package Q"]
        for k, v in sorted(spec["q_consts"].items()):
            ql.append("  constant Real %s = %d;" % (k, v))
        for c in spec["classes"]:
            if c["where"] == "Q" and assign["files"].get(c["name"], 0) == 0:
                ql.append(render_class(spec, c, "  "))
        ql.append("end Q;")
        if q_own:
            q_lines = ["within %s;" % P] + ql
        else:
            own += ["  " + ln for ln in ql]
    for c in spec["classes"]:
        if c["where"] == "P" and assign["files"].get(c["name"], 0) == 0 and not spec.get("q_last"):
            own.append(render_class(spec, c, "  "))
    own.append("end %s;" % P)
    result = [("%s.mo" % P, "\n".join(own) + "\n", True)]
    if q_lines:
        result.append(("Q_of_%s.mo" % P, "\n".join(q_lines) + "\n", False))
    by_file = {}
    for c in spec["classes"]:
        fi = assign["files"].get(c["name"], 0)
        if fi:
            by_file.setdefault((fi, c["where"]), []).append(c)
    for (fi, where), cs in sorted(by_file.items()):
        within = P if where == "P" else P + ".Q"
        txt = "within %s;\n" % within + "\n\n".join(render_class(spec, c, "") for c in cs) + "\n"
        result.append(("part%d_%s.mo" % (fi, where), txt, False))
    return result


def model_classes(spec):
    P = spec["P"]
    return ["%s.%s%s" % (P, "Q." if c["where"] == "Q" else "", c["name"]) for c in spec["classes"]]


class Engine:
    name = "lib_order"

    def __init__(self):
        self.runs = 0

    def configs(self, tier, prop):
        if tier == "quick":
            return [("merge", 260), ("walk", 80), ("threads", 100)]
        return [("merge", 12_000), ("walk", 3_000), ("threads", 6_000)]

    def chunk_size(self, config, tier):
        return 4

    def distinct_measure(self, prop):
        return "split_perm_entry"

    def setup_worker(self):
        procs.import_pymoca("0.0.verif.dirty")
        import pymoca.parser  # noqa: F401
        import pymoca.tree  # noqa: F401
        import pymoca.backends.casadi.api  # noqa: F401
        import tools.compiler  # noqa: F401

        fsim.install()
        core.install_lock_seam(procs.repo_root())
        util.silence_antlr()
        lg = logging.getLogger("pymoca")
        lg.addHandler(logging.NullHandler())
        lg.propagate = False
        self.ref_world = procs.RefWorld()

    def gen_plan(self, rng, config, tier, prop):
        if config == "threads":
            # two threads of one process assemble two different libraries at the same time, pre-empted at every line of
            # the merge code (pymoca/ast.py): each must get what it gets alone, for the file order it uses
            subs = []
            for _ in range(2):
                sp = self.gen_plan(rng, "merge", tier, prop)
                n = 1 + (1 if sp["spec"]["has_q"] and sp["assign"]["q_own"] else 0) + len({(v, 0) for v in sp["assign"]["files"].values()})
                sp["order_pick"] = rng.randrange(720)
                subs.append(sp)
            return {"kind": "threads", "subs": subs, "sched_seed": rng.randrange(1 << 62), "cost": [20, 200]}
        spec = gen_spec(rng)
        # the CasADi backend only resolves package constants referenced by a dotted name
        spec["const_fq"] = True if config == "walk" else rng.random() < 0.3
        names = [c["name"] for c in spec["classes"]]
        n_parts = rng.randint(1, 2)
        assign = {"q_own": rng.random() < 0.5, "files": {}}
        for n in names:
            if rng.random() < 0.65:
                assign["files"][n] = rng.randint(1, n_parts)
        if not assign["files"] and not (spec["has_q"] and assign["q_own"]):
            assign["files"][names[-1]] = 1
        return {"kind": config, "spec": spec, "assign": assign, "layout": rng.choice(["flat", "nested", "package_mo", "package_mo"]),
                # the folder's own name is an input too (blanks, glob metacharacters)
                "dirname": rng.choice(["lib", "lib", "my lib", "lib [v2]", "run[1]", "a*b?"]),
                "order_seed": rng.randrange(1 << 30), "perm": None}

    def shrink_candidates(self, plan):
        if plan.get("kind") == "threads":
            sch = plan.get("schedule") or {}
            picks = sch.get("picks", [])
            if picks:
                for perm in ([0, 1], [1, 0]):
                    newp = []
                    for a in perm:
                        newp += [a] * picks.count(a)
                    if newp != picks:
                        p = copy.deepcopy(plan)
                        p["schedule"] = {"picks": newp, "costs": []}
                        yield p
                sw = [k for k in range(1, len(picks)) if picks[k] != picks[k - 1]]
                for k in sw[:40]:
                    newp = list(picks)
                    newp[k] = newp[k - 1]
                    p = copy.deepcopy(plan)
                    p["schedule"] = {"picks": newp, "costs": sch.get("costs", [])}
                    yield p
            return
        spec = plan["spec"]
        # fewer classes (keep T/Base which others need)
        for i in range(len(spec["classes"]) - 1, 1, -1):
            p = copy.deepcopy(plan)
            gone = p["spec"]["classes"].pop(i)["name"]
            p["assign"]["files"].pop(gone, None)
            if gone == "Pin":
                p["spec"]["classes"] = [c for c in p["spec"]["classes"] if c["name"] != "Conn"]
                p["assign"]["files"].pop("Conn", None)
            if gone == "Mid":
                p["spec"]["classes"] = [c for c in p["spec"]["classes"] if c["name"] != "Top"]
                p["assign"]["files"].pop("Top", None)
            yield p
        # fewer files
        for n in list(plan["assign"]["files"]):
            p = copy.deepcopy(plan)
            del p["assign"]["files"][n]
            if p["assign"]["files"] or (spec["has_q"] and p["assign"]["q_own"]):
                yield p
        if plan["assign"]["q_own"] and plan["assign"]["files"]:
            p = copy.deepcopy(plan)
            p["assign"]["q_own"] = False
            yield p
        if any(plan["spec"]["fq"]):
            p = copy.deepcopy(plan)
            p["spec"]["fq"] = [False] * len(p["spec"]["fq"])
            yield p

    # -- helpers ---------------------------------------------------------------------------------------
    @staticmethod
    def flat_all(tree_pickle, classes):
        import pymoca.ast as A
        import pymoca.tree as T

        out = {}
        for c in classes:
            try:
                out[c] = ("ok", canon.tree_digest(T.flatten(pickle.loads(tree_pickle), A.ComponentRef.from_string(c)), SKIP))
            except Exception as e:
                out[c] = ("fail", type(e).__name__)
        return out

    @staticmethod
    def var_names(m):
        out = set()
        for cat in ("states", "der_states", "alg_states", "inputs", "parameters", "constants"):
            out.update("%s:%s" % (cat, v.symbol.name()) for v in getattr(m, cat))
        return out

    @staticmethod
    def perm_class(order, own_idx):
        pos = order.index(own_idx)
        if pos == 0:
            return "own_file_first"
        if pos == len(order) - 1:
            return "own_file_last"
        return "interleaved"

    def execute(self, plan, replay=False):
        import pymoca.parser as P

        self.runs += 1
        if plan.get("kind") == "threads":
            return self.run_threads(plan, replay)
        spec, assign = plan["spec"], plan["assign"]
        log = core.EventLog(keep=True)
        counts = {}
        distinct = set()
        viol = None
        classes = model_classes(spec)
        files = render_split(spec, assign)
        own_idx = 0
        with self.ref_world:
            # the reference (the library in ONE file) is computed in the reference process: a separate copy of the package
            import pymoca.parser as RP

            single = RP.parse(render_single(spec))
            if single is None:
                raise core.HarnessError("generated single-file library does not parse")
            ref = self.flat_all(pickle.dumps(single), classes)
        counts["reference_classes_ok"] = sum(1 for v in ref.values() if v[0] == "ok")
        counts["reference_classes_fail"] = sum(1 for v in ref.values() if v[0] == "fail")
        parsed = []
        for rel, txt, _own in files:
            t = P.parse(txt)
            if t is None:
                raise core.HarnessError("generated file %s does not parse:\n%s" % (rel, txt))
            parsed.append(pickle.dumps(t))
        n = len(files)
        split_shape = "%d_files%s" % (n, "_qown" if spec["has_q"] and assign["q_own"] else "")
        if plan["kind"] == "merge":
            perms = [plan["perm"]] if plan.get("perm") else list(itertools.permutations(range(n)))
            for order in perms:
                order = list(order)
                tree = None
                for i in order:
                    t = pickle.loads(parsed[i])
                    if tree is None:
                        tree = t
                    else:
                        tree.extend(t)
                got = self.flat_all(pickle.dumps(tree), classes)
                pc = self.perm_class(order, own_idx)
                distinct.add(canon.digest((split_shape, pc, "merge", tuple(sorted(assign["files"].items())))))
                counts["probe:perm_" + pc] = counts.get("probe:perm_" + pc, 0) + 1
                log.add(0, 0, "merge", "%s %s" % (order, sorted((c, v[0]) for c, v in got.items())))
                bad = [c for c in classes if got[c] != ref[c] and not (got[c][0] == "fail" and ref[c][0] == "fail")]
                if bad:
                    c = bad[0]
                    lost = "class_fails" if got[c][0] == "fail" else "different_model"
                    viol = ("wrong_result" if got[c][0] == "ok" else "exception", "ast:Class._extend", ["merge", pc, lost],
                            "files %s merged in order %s: flatten(%s) gives %s, the single-file library gives %s" % (
                                [f[0] for f in files], [files[i][0] for i in order], c,
                                got[c] if got[c][0] == "fail" else "a different model", ref[c] if ref[c][0] == "fail" else "the expected model"))
                    plan = dict(plan, perm=order)
                    break
        else:
            viol, plan = self.run_walk(plan, spec, files, classes, ref, log, counts, distinct, split_shape, own_idx)
        res = {"property": plan.get("property", "C27"), "verdict": "ok", "plan": plan, "counts": counts,
               "digest": log.digest(), "sim_time_s": 0.0, "steps": 0, "distinct": {"split_perm_entry": sorted(distinct)}}
        if viol:
            res["verdict"] = "violation"
            res["kind"], res["site"], res["shape"], res["detail"] = viol
            res["log_tail"] = log.tail(30)
        return res

    # -- two threads assembling libraries at the same time ---------------------------------------------------------
    def run_threads(self, plan, replay):
        import sys

        import pymoca.ast as A
        import pymoca.parser as P

        clock = core.SimClock()
        core.set_clock(clock)
        log = core.EventLog(keep=True)
        counts = {}
        jobs = []
        for sp in plan["subs"]:
            spec, assign = sp["spec"], sp["assign"]
            classes = model_classes(spec)
            files = render_split(spec, assign)
            perms = list(itertools.permutations(range(len(files))))
            order = list(perms[sp["order_pick"] % len(perms)])
            parsed = [pickle.dumps(P.parse(txt)) for _rel, txt, _own in files]
            with self.ref_world:
                import pymoca.parser as RP

                ref = self.flat_all(pickle.dumps(RP.parse(render_single(spec))), classes)
            jobs.append({"classes": classes, "files": files, "order": order, "parsed": parsed, "ref": ref, "tree": None})
        source = core.ReplaySchedule(plan.get("schedule")) if replay else core.SeedSchedule(
            plan["sched_seed"], plan["cost"][0], plan["cost"][1])
        sched = core.Sched(clock, source, log, step_cap=60000)
        ast_file = A.__file__

        def local(frame, event, arg):
            if event == "line":
                sched.yield_point("line", "%s:%d" % (frame.f_code.co_name, frame.f_lineno - frame.f_code.co_firstlineno))
            return local

        def tracer(frame, event, arg):
            return local if frame.f_code.co_filename == ast_file else None

        def body(job):
            def run(actor):
                tree = None
                for i in job["order"]:
                    t = pickle.loads(job["parsed"][i])
                    sched.yield_point("file", job["files"][i][0])
                    if tree is None:
                        tree = t
                    else:
                        sys.settrace(tracer)
                        try:
                            tree.extend(t)
                        finally:
                            sys.settrace(None)
                job["tree"] = pickle.dumps(tree)
            return run

        for k, job in enumerate(jobs):
            sched.spawn(k, 0, body(job))
        try:
            sched.run()
        finally:
            core.set_clock(None)
        plan = dict(plan, schedule=source.record())
        viol = None
        switches = sum(1 for a, b in zip(plan["schedule"]["picks"], plan["schedule"]["picks"][1:]) if a != b)
        counts["probe:context_switches_inside_merges"] = switches
        for k, job in enumerate(jobs):
            if job["tree"] is None:
                viol = ("exception", "ast:Class._extend", ["threads", "merge_raised"], "thread %d: merging raised" % k)
                break
            got = self.flat_all(job["tree"], job["classes"])
            bad = [c for c in job["classes"] if got[c] != job["ref"][c] and not (got[c][0] == "fail" and job["ref"][c][0] == "fail")]
            if bad:
                c = bad[0]
                viol = ("wrong_result" if got[c][0] == "ok" else "exception", "ast:Class._extend",
                        ["threads", "class_fails" if got[c][0] == "fail" else "different_model"],
                        "thread %d of 2 (both merging libraries at the same time), files %s merged in order %s: flatten(%s) gives %s, "
                        "the single-file library gives %s" % (k, [f[0] for f in job["files"]], [job["files"][i][0] for i in job["order"]],
                                                             c, got[c] if got[c][0] == "fail" else "a different model",
                                                             job["ref"][c] if job["ref"][c][0] == "fail" else "the expected model"))
                break
        res = {"property": plan.get("property", "C27"), "verdict": "ok", "plan": plan, "counts": counts,
               "digest": log.digest(), "sim_time_s": clock.elapsed_s(), "steps": sched.total_steps,
               "distinct": {"split_perm_entry": [canon.digest(("threads", sched.sched_sig.hexdigest()[:16]))]}}
        if viol:
            res["verdict"] = "violation"
            res["kind"], res["site"], res["shape"], res["detail"] = viol
            res["log_tail"] = log.tail(30)
        return res

    # -- the directory walks of the API and of the compiler tool ------------------------------------------------
    def run_walk(self, plan, spec, files, classes, ref, log, counts, distinct, split_shape, own_idx):
        import tools.compiler as C

        sandbox = util.new_sandbox()
        mdir = os.path.join(sandbox, plan.get("dirname", "lib"))
        os.makedirs(mdir)
        paths = []
        for k, (rel, txt, _own) in enumerate(files):
            sub = os.path.join(mdir, "d%d" % (k % 2)) if plan["layout"] == "nested" and k else mdir
            if plan["layout"] == "package_mo":
                # the standard Modelica directory layout: every package directory has its own package.mo, so the same
                # base name occurs in several directories
                Pn = spec["P"]
                if _own:
                    sub, rel = os.path.join(mdir, Pn), "package.mo"
                elif rel.startswith("Q_of_"):
                    sub, rel = os.path.join(mdir, Pn, "Q"), "package.mo"
                elif rel.endswith("_Q.mo"):
                    sub, rel = os.path.join(mdir, Pn, "Q"), rel.split("_")[0] + ".mo"
                else:
                    sub, rel = os.path.join(mdir, Pn), rel.split("_")[0] + ".mo"
            os.makedirs(sub, exist_ok=True)
            p = os.path.join(sub, rel)
            with fsim.REAL_OPEN(p, "w") as f:
                f.write(txt)
            paths.append(p)
        targets = [c for c in classes if ref[c][0] == "ok" and spec["classes"][classes.index(c)]["tpl"] in ("mid", "top", "base", "leaf", "conn")]
        rng = random.Random(plan["order_seed"])
        viol = None
        # orders: every permutation of each directory's entries when there are <= 4, seeded otherwise
        names_by_dir = {}
        for root, dirs, fs_ in os.walk(mdir):
            names_by_dir[os.path.relpath(root, sandbox)] = sorted(dirs + fs_)
        top = os.path.relpath(mdir, sandbox)
        top_names = names_by_dir[top]
        all_orders = list(itertools.permutations(top_names)) if len(top_names) <= 4 else [
            tuple(rng.sample(top_names, len(top_names))) for _ in range(12)]
        if plan.get("perm"):
            all_orders = [tuple(plan["perm"])]
        results = {}
        # what the API makes of the same library in ONE file: a class that compiles from it must compile from the split
        # library in every directory order, with the same set of variables (their order follows per-file declaration
        # counters and is not compared with the single file)
        import pymoca.backends.casadi.api as api

        sdir = os.path.join(sandbox, "single")
        os.makedirs(sdir)
        with fsim.REAL_OPEN(os.path.join(sdir, spec["P"] + ".mo"), "w") as f:
            f.write(render_single(spec))
        api_ref = {}
        with self.ref_world:
            import pymoca.backends.casadi.api as ref_api

            for c in targets[:2]:
                try:
                    m = ref_api.transfer_model(sdir, c, {"replace_constant_values": True})
                    api_ref[c] = ("ok", self.var_names(m))
                except Exception as e:
                    api_ref[c] = ("fail", type(e).__name__)
        for order in all_orders:
            sub_orders = {d: rng.sample(v, len(v)) for d, v in names_by_dir.items() if d != top}

            def chooser(rel, names, order=order, sub_orders=sub_orders):
                if rel == top:
                    return [x for x in order if x in names] + [x for x in names if x not in order]
                want = sub_orders.get(rel)
                return [x for x in want if x in names] + [x for x in names if x not in want] if want else names

            fs = fsim.FsSeam(sandbox, None, None)
            fs.scandir_order = chooser
            own_name = files[own_idx][0]
            first_file = next((x for x in order if x.endswith(".mo")), None)
            pc = "own_file_first" if order and order[0] == own_name else ("own_file_last" if order[-1] == own_name else "interleaved")
            distinct.add(canon.digest((split_shape, pc, "walk", plan["layout"], tuple(order))))
            counts["probe:walk_" + pc] = counts.get("probe:walk_" + pc, 0) + 1
            with fs:
                # compiler tool, flatten only
                for c in targets[:3]:
                    lg = logging.getLogger("pymoca")
                    lvl = lg.level
                    try:
                        st = ("status", C.main([mdir, "-m", c]))
                    except SystemExit as e:
                        st = ("exit", e.code)
                    except Exception as e:
                        st = ("raised", type(e).__name__)
                    finally:
                        lg.setLevel(lvl)
                    log.add(0, 0, "cli", "%s %s %s" % (list(order), c, st))
                    if st != ("status", 0):
                        viol = ("wrong_exit_status", "compiler:main", ["cli_walk", pc, "class_fails"],
                                "directory order %s: compiler -m %s ends with %r; flattening it from the single-file "
                                "library succeeds" % (list(order), c, st))
                        break
                if viol is None:
                    # CasADi API
                    for c in targets[:2]:
                        try:
                            m = api.transfer_model(mdir, c, {"replace_constant_values": True})
                            for fn in mcanon.FUNCS:
                                getattr(m, fn + "_function")
                            out = ("ok", m)
                        except Exception as e:
                            out = ("fail", type(e).__name__)
                        log.add(0, 0, "api", "%s %s %s" % (list(order), c, out[0]))
                        if api_ref[c][0] == "ok" and (out[0] != "ok" or self.var_names(out[1]) != api_ref[c][1]):
                            viol = ("exception" if out[0] != "ok" else "wrong_result", "api:_compile_model",
                                    ["api_walk", pc, "class_fails" if out[0] != "ok" else "different_variables"],
                                    "transfer_model(%s) with directory order %s %s; from the single-file library it compiles%s" % (
                                        c, list(order), "raises %s" % out[1] if out[0] != "ok" else "has other variables",
                                        "" if out[0] != "ok" else " with %s" % (sorted(api_ref[c][1]),)))
                            break
                        prev = results.get(c)
                        if prev is None:
                            results[c] = (order, out)
                        else:
                            o0, r0 = prev
                            diff = None
                            if r0[0] != out[0]:
                                diff = "%s vs %s" % (r0[0] if r0[0] == "ok" else r0, out[0] if out[0] == "ok" else out)
                            elif out[0] == "ok":
                                diff = mcanon.compare(r0[1], out[1], seed=3)
                            if diff:
                                viol = ("wrong_result", "api:_compile_model", ["api_walk", pc, "different_model"],
                                        "transfer_model(%s) with directory order %s differs from order %s: %s" % (
                                            c, list(order), list(o0), diff))
                                break
            if viol:
                plan = dict(plan, perm=list(order))
                break
        if viol is None and len(files) >= 2 and not plan.get("perm"):
            viol = self.run_folders(plan, spec, files, targets, api_ref, sandbox, log, counts, distinct, split_shape)
        return viol, plan

    def run_folders(self, plan, spec, files, targets, api_ref, sandbox, log, counts, distinct, split_shape):
        """The files spread over several folders (the model folder and library folders): the order in which the folders
        are given is the schedule.  Every order must give what the single-file library gives."""
        import pymoca.backends.casadi.api as api

        rng = random.Random(plan["order_seed"] + 1)
        n_f = min(len(files), rng.choice([2, 2, 3]))
        folders = [os.path.join(sandbox, "multi", n) for n in ["lib", "lib2", "lib_more"][:n_f]]  # (names that are string prefixes of each other)
        for d in folders:
            os.makedirs(d)
        for k, (rel, txt, _own) in enumerate(files):
            with fsim.REAL_OPEN(os.path.join(folders[k % n_f], rel), "w") as f:
                f.write(txt)
        fs = fsim.FsSeam(sandbox, None, None)
        with fs:
            for order in itertools.permutations(range(n_f)):
                pc = "own_folder_first" if order[0] == 0 else ("own_folder_last" if order[-1] == 0 else "interleaved")
                distinct.add(canon.digest((split_shape, pc, "folders", n_f, tuple(order))))
                counts["probe:folders_" + pc] = counts.get("probe:folders_" + pc, 0) + 1
                for c in targets[:2]:
                    if api_ref.get(c, ("fail",))[0] != "ok":
                        continue
                    try:
                        m = api.transfer_model(folders[order[0]], c, {"replace_constant_values": True,
                                                                      "library_folders": [folders[i] for i in order[1:]]})
                        out = ("ok", self.var_names(m))
                    except Exception as e:
                        out = ("fail", type(e).__name__)
                    log.add(0, 0, "folders", "%s %s %s" % (list(order), c, out[0]))
                    if out != api_ref[c]:
                        return ("exception" if out[0] != "ok" else "wrong_result", "api:_compile_model",
                                ["api_folders", pc, "class_fails" if out[0] != "ok" else "different_variables"],
                                "transfer_model(%s) with the files spread over folders %s given in order %s %s; from the "
                                "single-file library it compiles" % (c, [os.path.basename(f) for f in folders], list(order),
                                                                    "raises %s" % out[1] if out[0] != "ok" else "has other variables"))
        return None
