"""C17 — AliasRelation is a signed equivalence under any history of add / remove / copy (DESIGN 3.C17).

Replicas are created by copy(); operations go to a plan-chosen replica; the reference is a signed
union-find per replica.  After every operation every replica is checked for every signed name."""
import copy as _copy
import importlib.util
import os

from simkit import canon, core, procs
from simkit.runner import ddmin_list


def neg(v):
    return v[1:] if v.startswith("-") else "-" + v


def split(v):
    return (v[1:], -1) if v.startswith("-") else (v, 1)


def signed(var, s):
    return var if s > 0 else "-" + var


class Ref:
    """Signed union-find with explicit classes: list of dict var -> sign (relative to the class frame)."""

    def __init__(self, classes=None):
        self.classes = [dict(c) for c in (classes or [])]

    def copy(self):
        return Ref(self.classes)

    def cls(self, var):
        for c in self.classes:
            if var in c:
                return c
        return None

    def relation(self, a, b):
        """None: unrelated; +1: a == b already; -1: a == -b (adding a==b would relate a variable to its negation)."""
        va, sa = split(a)
        vb, sb = split(b)
        if va == vb:
            return 1 if sa == sb else -1
        ca, cb = self.cls(va), self.cls(vb)
        if ca is None or cb is None or ca is not cb:
            return None
        return 1 if ca[va] * sa == ca[vb] * sb else -1

    def add(self, a, b):
        va, sa = split(a)
        vb, sb = split(b)
        if va == vb:
            return
        ca, cb = self.cls(va), self.cls(vb)
        if ca is None:
            ca = {va: 1}
            self.classes.append(ca)
        if cb is None:
            cb = {vb: 1}
            self.classes.append(cb)
        if ca is cb:
            return
        f = ca[va] * sa * cb[vb] * sb
        for u, s in cb.items():
            ca[u] = f * s
        self.classes = [c for c in self.classes if c is not cb]

    def dissolve(self, var):
        c = self.cls(var)
        if c is not None:
            self.classes = [x for x in self.classes if x is not c]

    def signed_class(self, v):
        var, s = split(v)
        c = self.cls(var)
        if c is None or len(c) < 2:
            return {v}
        return {signed(u, c[u] * c[var] * s) for u in c}

    def nontrivial(self):
        return [c for c in self.classes if len(c) >= 2]

    def abstract(self):
        out = []
        for c in self.nontrivial():
            m = min(c)
            out.append(tuple(sorted((u, s * c[m]) for u, s in c.items())))
        return tuple(sorted(out))


class Engine:
    name = "alias_hist"

    def __init__(self):
        self.AR = None

    def configs(self, tier, prop):
        return [("history", 200_000 if tier == "quick" else 10_000_000)]

    def chunk_size(self, config, tier):
        return 4000 if tier == "quick" else 50_000

    def distinct_measure(self, prop):
        return "state_op_pairs"

    def setup_worker(self):
        procs.import_pymoca("0.0.verif.dirty")
        import pymoca

        # load the module by path: importing the package would pull in CasADi for nothing
        path = os.path.join(os.path.dirname(pymoca.__file__), "backends", "casadi", "alias_relation.py")
        spec = importlib.util.spec_from_file_location("verif_alias_relation", path)
        mod = importlib.util.module_from_spec(spec)
        spec.loader.exec_module(mod)
        self.AR = mod.AliasRelation

    def gen_plan(self, rng, config, tier, prop):
        n = rng.randint(3, 6)
        names = ["v%d" % i for i in range(n)]
        universe = names + ["-" + x for x in names]
        ops = []
        n_rep = 1
        w_copy = rng.choice([0.0, 0.08, 0.15])
        w_rm = rng.choice([0.1, 0.2, 0.35])
        for _ in range(rng.randint(2, 14)):
            r = rng.random()
            rep = rng.randrange(n_rep)
            if r < w_copy and n_rep < 4:
                ops.append({"op": "copy", "rep": rep})
                n_rep += 1
            elif r < w_copy + w_rm:
                ops.append({"op": "remove", "a": rng.choice(universe if rng.random() < 0.4 else names), "rep": rep})
            else:
                ops.append({"op": "add", "a": rng.choice(universe), "b": rng.choice(universe), "rep": rep})
        plan = {"n": n, "ops": ops}
        # Observation is part of the history: a query may change the object (path compression, memoisation), so which
        # names are looked up after each operation, and in which order, is a plan decision.  "full": every signed name
        # after every operation (sorted, or in a seeded order); "sparse": 0-3 chosen names per operation and one full
        # pass, in a seeded order, at the end.
        mode = rng.choice(["full_sorted", "full_shuffled", "sparse", "sparse", "sparse"])
        if mode != "full_sorted":
            plan["final_order"] = rng.sample(universe, len(universe))
            if rng.random() < 0.3:
                plan["final_order"].sort(key=lambda v: not v.startswith("-"))  # negated names first
        if mode == "full_shuffled":
            for op in ops:
                op["q"] = rng.sample(universe, len(universe))
        elif mode == "sparse":
            for op in ops:
                op["q"] = rng.sample(universe, rng.choice([0, 0, 1, 1, 2, 3]))
                # also whether canonical_variables / iteration are read after this operation, and on which replicas anything
                # is looked at at all (an unobserved replica keeps whatever lazily maintained state it has)
                op["cv"] = rng.random() < 0.3
                op["reps"] = rng.choice(["all", "target", "target", "none"])
        plan["obs"] = mode
        return plan

    def shrink_candidates(self, plan):
        for cand in ddmin_list(plan["ops"]):
            p = _copy.deepcopy(plan)
            p["ops"] = _copy.deepcopy(cand)
            yield p
        for i, op in enumerate(plan["ops"]):
            if op["rep"] != 0:
                p = _copy.deepcopy(plan)
                p["ops"][i]["rep"] = 0
                yield p
            for k in ("a", "b"):
                if k in op and op[k].startswith("-"):
                    p = _copy.deepcopy(plan)
                    p["ops"][i][k] = op[k][1:]
                    yield p
            if op.get("q"):
                for j in range(len(op["q"])):
                    p = _copy.deepcopy(plan)
                    del p["ops"][i]["q"][j]
                    yield p
            if "cv" in op and op["cv"]:
                p = _copy.deepcopy(plan)
                p["ops"][i]["cv"] = False
                yield p
        if plan.get("final_order") and plan["final_order"] != sorted(plan["final_order"]):
            p = _copy.deepcopy(plan)
            p["final_order"] = sorted(p["final_order"])
            yield p

    def check(self, impl, ref, universe, structure=True):
        """Returns None or (what, detail).  structure=False: only the look-ups of the given names (aliases,
        canonical_signed); canonical_variables and iteration are not read."""
        canon_of = {}
        for v in universe:
            got = set(impl.aliases(v))
            want = ref.signed_class(v)
            if got != want:
                return "aliases", "aliases(%s) = %s, signed closure gives %s" % (v, sorted(got), sorted(want))
            c, s = impl.canonical_signed(v)
            var, vs = split(v)
            cl = ref.cls(var)
            if cl is None or len(cl) < 2:
                if (c, s) != (var, vs):
                    return "canonical_signed", "canonical_signed(%s) = %r for a variable that has no aliases" % (v, (c, s))
                continue
            if c not in cl:
                return "canonical_signed", "canonical_signed(%s) = %r: %s is not a member of the class %s" % (
                    v, (c, s), c, sorted(cl))
            if s != cl[var] * vs * cl[c]:
                return "canonical_signed", "canonical_signed(%s) = %r has the wrong sign (class %s)" % (v, (c, s), cl)
            key = id(cl)
            if canon_of.setdefault(key, c) != c:
                return "canonical_signed", "members of one class have different canonical names: %s and %s" % (
                    canon_of[key], c)
        if not structure:
            return None
        # exactly one canonical name per non-trivial class (decided without further look-ups: a query may not be
        # free of side effects), and the names canonical_signed gave are among them
        got_canon = set(impl.canonical_variables)
        want_canon = set()
        for cl in ref.nontrivial():
            inside = sorted(got_canon & set(cl))
            if len(inside) != 1:
                return "canonical_variables", "canonical_variables = %s holds %d names of the class %s, expected one" % (
                    sorted(got_canon), len(inside), sorted(cl))
            want_canon.add(inside[0])
            if canon_of.get(id(cl), inside[0]) != inside[0]:
                return "canonical_signed", "canonical_signed names %s for the class %s, canonical_variables holds %s" % (
                    canon_of[id(cl)], sorted(cl), inside[0])
        if got_canon != want_canon:
            return "canonical_variables", "canonical_variables = %s, expected one per non-trivial class: %s" % (
                sorted(got_canon), sorted(want_canon))
        seen = []
        for c, al in impl:
            seen.append(c)
            want = ref.signed_class(c) - {c}
            if set(al) != want:
                return "iteration", "iteration yields (%s, %s), expected aliases %s" % (c, sorted(al), sorted(want))
        if sorted(seen) != sorted(want_canon):
            return "iteration", "iteration yields canonical names %s, expected one entry per non-trivial class %s" % (
                sorted(seen), sorted(want_canon))
        return None

    def execute(self, plan, replay=False):
        names = ["v%d" % i for i in range(plan["n"])]
        universe = names + ["-" + x for x in names]
        log = core.EventLog(keep=False)
        impls = [self.AR()]
        refs = [Ref()]
        counts = {}
        pairs = set()
        viol = None
        trail = []
        for opi, op in enumerate(plan["ops"]):
            rep = op["rep"] % len(impls)
            impl, ref = impls[rep], refs[rep]
            k = op["op"]
            before = ref.abstract()
            try:
                if k == "copy":
                    impls.append(impl.copy())
                    refs.append(ref.copy())
                    counts["probe:copy"] = counts.get("probe:copy", 0) + 1
                elif k == "add":
                    rel = ref.relation(op["a"], op["b"])
                    if rel == -1:
                        counts["skipped:self_negation"] = counts.get("skipped:self_negation", 0) + 1
                        continue  # the property excludes relating a variable to its own negation
                    impl.add(op["a"], op["b"])
                    ref.add(op["a"], op["b"])
                    if rel is None and len(ref.cls(split(op["a"])[0]) or ()) > 2:
                        counts["probe:merge_of_nontrivial"] = counts.get("probe:merge_of_nontrivial", 0) + 1
                elif k == "remove":
                    a = op["a"]
                    was_canonical = a in impl.canonical_variables
                    var, _s = split(a)
                    cl = ref.cls(var)
                    if was_canonical:
                        impl.remove(a)
                        ref.dissolve(var)
                        counts["probe:remove_canonical"] = counts.get("probe:remove_canonical", 0) + 1
                    else:
                        impl.remove(a)
                        # the property is silent for a non-canonical name: no change, or the whole class dissolved
                        if cl is not None and len(cl) >= 2 and set(impl.aliases(var)) == {var} and all(
                                set(impl.aliases(u)) == {u} for u in cl):
                            ref.dissolve(var)
                        counts["probe:remove_noncanonical"] = counts.get("probe:remove_noncanonical", 0) + 1
            except Exception as e:
                from simkit import util

                viol = ("exception", util.exc_site(e), [k], "op %d %s raised %r" % (opi, op, e))
                break
            trail.append((k, rep))
            if before or ref.abstract():
                pairs.add(canon.digest((before, k, op.get("a"), op.get("b"))))
            for ri in range(len(impls)):
                is_target = ri == rep or (k == "copy" and ri == len(impls) - 1)
                if op.get("reps") == "none" or (op.get("reps") == "target" and not is_target):
                    continue
                bad = self.check(impls[ri], refs[ri], op["q"] if "q" in op else universe, op.get("cv", True))
                if bad:
                    side = "target" if ri == rep or (k == "copy" and ri == len(impls) - 1) else "other_replica"
                    viol = ("wrong_" + bad[0], "alias_relation:" + k, [k, side],
                            "after op %d %s on replica %d, replica %d: %s" % (opi, op, rep, ri, bad[1]))
                    break
            if viol:
                break
            log.add(opi, rep, k, repr(ref.abstract()))
        if viol is None and plan.get("final_order"):
            for ri in range(len(impls)):
                bad = self.check(impls[ri], refs[ri], plan["final_order"])
                if bad:
                    viol = ("wrong_" + bad[0], "alias_relation:final_pass", ["final_pass", "any"],
                            "full pass after the last operation, replica %d: %s" % (ri, bad[1]))
                    break
        counts["obs:" + plan.get("obs", "full_sorted")] = 1
        res = {"property": plan.get("property", "C17"), "verdict": "ok", "plan": plan, "counts": counts,
               "digest": log.digest(), "sim_time_s": 0.0, "steps": len(plan["ops"]),
               "distinct": {"state_op_pairs": sorted(pairs),
                            "abstract_states": sorted({canon.digest(r.abstract()) for r in refs})}}
        if viol:
            res["verdict"] = "violation"
            res["kind"], res["site"], res["shape"], res["detail"] = viol
            res["log_tail"] = []
        return res
