"""C26 — compiler CLI exit status counts exactly the errors (DESIGN 3.C26).

tools.compiler.main(argv) in-process inside a fault-injecting file system.  The fault-free run of
every generated invocation is the control configuration; then every I/O site of its trace is hit
by every applicable fault, one at a time (exhaustively), then seeded pairs."""
import copy
import logging
import os
import pickle
import random
import shutil

from simkit import canon, core, fsim, procs, util
from simkit.runner import ddmin_list

FILES = {
    "lib/A.mo": "model A\n  parameter Real k = 2;\n  Real x(start = 1);\nequation\n  der(x) = -k * x;\nend A;\n",
    "lib/B.mo": "model B\n  A a1(k = 3);\n  A a2;\n  Real s;\nequation\n  s = a1.x + a2.x;\nend B;\n",
    "lib/C.mo": "connector Pin\n  Real v;\n  flow Real i;\nend Pin;\n\nmodel C\n  Pin p;\n  Pin n;\n  Real u;\nequation\n"
                "  u = p.v - n.v;\n  p.i + n.i = 0;\n  u = 2 * p.i;\nend C;\n",
    "lib/Bad.mo": "model Bad\n  NoSuchType z;\n  Real y;\nequation\n  y = 1;\nend Bad;\n",
    "lib/Typo.mo": "model Typo\n  A a1(kk = 3);\nend Typo;\n",
    "lib/sub/D.mo": "model D\n  Real w(start = 2);\nequation\n  der(w) = -w;\nend D;\n",
    "brk/Broken.mo": "model Broken\n  Real x\nequation\n  x = = 1;\nend Broken;\n",
    "brk/Ok.mo": "model Ok\n  Real q;\nequation\n  q = 1;\nend Ok;\n",
    # names that start with a character some argument parsers give a meaning to (only matters for relative paths)
    "@lib/E.mo": "model E\n  Real r(start = 3);\nequation\n  der(r) = -2 * r;\nend E;\n",
    "@lib/A.mo": "model A\n  parameter Real k = 2;\n  Real x(start = 1);\nequation\n  der(x) = -k * x;\nend A;\n",
}
PATH_CHOICES = ["lib", "lib/A.mo", "lib/B.mo", "lib/sub", "brk", "brk/Broken.mo", "brk/Ok.mo", "missing.mo", "nodir"]
MODEL_CHOICES = ["A", "B", "C", "D", "Bad", "Typo", "Nope", "Ok", "E"]
SRC_FAULTS = {"open": ["EIO", "EACCES", "ENOENT"], "read": ["EIO"]}
OUT_FAULTS = {"open": ["ENOSPC", "EIO", "EACCES", "ENOENT"], "write": ["ENOSPC", "EIO"], "close": ["EIO"]}


class Engine:
    name = "cli_faults"

    def __init__(self):
        self.runs = 0

    def configs(self, tier, prop):
        if tier == "quick":
            return [("control", 600), ("single_faults", 260), ("fault_pairs", 140), ("casadi_faults", 24), ("sequence", 120)]
        return [("control", 30_000), ("single_faults", 12_000), ("fault_pairs", 8_000), ("casadi_faults", 1_500), ("sequence", 6_000)]

    def chunk_size(self, config, tier):
        return 20

    def distinct_measure(self, prop):
        return "invocation_fault"

    def setup_worker(self):
        procs.import_pymoca("0.0.verif.dirty")
        import pymoca.parser  # noqa: F401
        import pymoca.tree  # noqa: F401
        import pymoca.backends.sympy.generator  # noqa: F401
        import tools.compiler  # noqa: F401

        fsim.install()
        util.silence_antlr()
        lg = logging.getLogger("pymoca")
        for h in list(lg.handlers):
            lg.removeHandler(h)
        lg.addHandler(logging.NullHandler())
        lg.propagate = False
        self.ref_world = procs.RefWorld()

    # -- plans -----------------------------------------------------------------------------------
    def gen_plan(self, rng, config, tier, prop):
        if config == "sequence":
            # several invocations by ONE process (main() is importable and is called like that by tools and tests): what
            # an invocation returns must not depend on the ones before it
            seq = []
            for k in range(rng.choice([2, 2, 3])):
                sub = self.gen_plan(rng, "control", tier, prop)
                if rng.random() < 0.3:
                    # the same model requested again and again from different PATHs, into the same output folder
                    sub.update(target="sympy", models=[rng.choice(["A", "B"])], outdir="out", relative=False, opts=[],
                               paths=[rng.choice(["lib", "lib/A.mo", "lib/B.mo", "lib/sub", "@lib"])])
                if rng.random() < 0.5:
                    sub["target"] = "casadi"
                    sub["paths"] = [rng.choice(["lib", "lib", "lib/sub", "lib/A.mo"])]
                    sub["models"] = [rng.choice(["A", "B", "D", "Bad"]) for _ in range(rng.choice([1, 1, 2]))]
                    sub["outdir"] = "out"
                    sub["opts"] = [rng.choice(["eliminable_variable_expression=(", "detect_aliases=true", "library_folders=nodir",
                                               "replace_parameter_values=true", "expand_vectors=true", "a=1"])
                                   for _ in range(rng.choice([0, 0, 1, 1, 2]))]
                seq.append(sub)
            return {"seq": seq, "paths": [], "models": [], "opts": [], "target": None, "outdir": "out", "faults": None,
                    "pair_seed": 0}
        target = rng.choice([None, None, "sympy", "sympy", "casadi"]) if config == "control" else rng.choice([None, "sympy", "sympy"])
        if config == "casadi_faults":
            target = "casadi"
        n_paths = rng.choice([1, 1, 2, 3])
        good = rng.random() < 0.6  # most invocations should get past the argument checks
        pool = ["lib", "lib/A.mo", "lib/B.mo", "lib/sub", "brk/Ok.mo"] if good else PATH_CHOICES
        if target == "casadi":
            # in this mode the tool lists files but does not parse them itself: keep files with syntax errors out,
            # the statement does not say how they should show in the status here
            pool = [p for p in pool if not p.startswith("brk")]
        paths = [rng.choice(pool) for _ in range(n_paths)]
        if config != "control" and "lib" not in paths and rng.random() < 0.7:
            paths[0] = "lib"
        models = [rng.choice(MODEL_CHOICES if rng.random() < 0.5 else ["A", "B", "C", "D"]) for _ in range(rng.choice([0, 1, 1, 2, 3]))]
        if target and not models and rng.random() < 0.8:
            models = [rng.choice(["A", "B", "D"])]
        if config != "control" and not models:
            models = ["A"]
        if config == "casadi_faults":
            # a CasADi compile costs ~0.2 s and every fault re-runs the invocation: short requests
            models = [rng.choice(["A", "B", "D", "Bad", "Nope"]) for _ in range(rng.choice([1, 2, 2]))]
            paths = [rng.choice(["lib", "lib", "lib/sub"])] + ([rng.choice(["lib/sub", "lib/A.mo"])] if rng.random() < 0.3 else [])
        opts = []
        if target and rng.random() < 0.4:
            for _ in range(rng.choice([1, 2])):
                opts.append(rng.choice(["a=1", "flag=true", "x=False", "bad", "a=b=c", "="]) if rng.random() < 0.5 else "ok=1")
        outdir = rng.choice(["out", "out", "out", "missing_out", "afile"]) if config == "control" else "out"
        relative = False
        if config == "control" and target != "casadi" and rng.random() < 0.3:
            # the tool is run from inside the project folder with relative names, some of them unusual
            relative = True
            paths = [rng.choice(["lib", "@lib", "@lib", "@lib/E.mo", "@missing.mo", "lib/A.mo"]) for _ in range(n_paths)]
            outdir = rng.choice(["out", "@out", "@out", "@nowhere"])
            models = [rng.choice(["A", "E", "B", "Bad"]) for _ in range(rng.choice([0, 1, 1, 2]))]
            if target and not models:
                models = ["A"]
        return {"relative": relative, "paths": paths, "models": models, "target": target, "opts": opts, "outdir": outdir,
                "verbose": rng.choice([0, 0, 0, 1, 2]), "faults": None, "pair_seed": rng.randrange(1 << 30)}

    def shrink_candidates(self, plan):
        if plan.get("seq"):
            for cand in ddmin_list(plan["seq"]):
                if cand:
                    p = copy.deepcopy(plan)
                    p["seq"] = copy.deepcopy(cand)
                    yield p
            for i, sub in enumerate(plan["seq"]):
                for sp in self.shrink_candidates(sub):
                    p = copy.deepcopy(plan)
                    p["seq"][i] = sp
                    yield p
            return
        for key in ("models", "paths", "opts"):
            if len(plan[key]) > (1 if key == "paths" else 0):
                for cand in ddmin_list(plan[key]):
                    if key == "paths" and not cand:
                        continue
                    p = copy.deepcopy(plan)
                    p[key] = cand
                    yield p
        if plan["faults"] and len(plan["faults"]) > 1:
            for cand in ddmin_list(plan["faults"]):
                if cand:
                    p = copy.deepcopy(plan)
                    p["faults"] = cand
                    yield p
        if plan["outdir"] != "out":
            p = copy.deepcopy(plan)
            p["outdir"] = "out"
            yield p
        if plan.get("relative"):
            p = copy.deepcopy(plan)
            p["relative"] = False
            yield p
        if plan.get("verbose"):
            p = copy.deepcopy(plan)
            p["verbose"] = 0
            yield p

    # -- sandbox / invocation ----------------------------------------------------------------------
    def make_sandbox(self):
        sb = util.new_sandbox()
        for rel, txt in FILES.items():
            p = os.path.join(sb, rel)
            os.makedirs(os.path.dirname(p), exist_ok=True)
            with fsim.REAL_OPEN(p, "w") as f:
                f.write(txt)
        os.makedirs(os.path.join(sb, "out"))
        os.makedirs(os.path.join(sb, "@out"))
        with fsim.REAL_OPEN(os.path.join(sb, "afile"), "w") as f:
            f.write("x")
        return sb

    @staticmethod
    def argv(plan, sb):
        if plan.get("relative"):  # invoke() runs main() with the sandbox as working directory
            a = list(plan["paths"])
            for m in plan["models"]:
                a += ["-m", m]
            if plan["target"]:
                a += ["-t", plan["target"]]
            for o in plan["opts"]:
                a += ["-O", o]
            a += ["-o", plan["outdir"]]
            if plan.get("verbose"):
                a += ["-" + "v" * plan["verbose"]]
            return a
        a = [os.path.join(sb, p) for p in plan["paths"]]
        for m in plan["models"]:
            a += ["-m", m]
        if plan["target"]:
            a += ["-t", plan["target"]]
        for o in plan["opts"]:
            a += ["-O", o]
        a += ["-o", os.path.join(sb, plan["outdir"])]
        if plan.get("verbose"):
            a += ["-" + "v" * plan["verbose"]]
        return a

    def invoke(self, plan, sb, faults):
        """Run main(argv) under the seam.  Returns (status tuple, seam)."""
        import tools.compiler as C

        fs = fsim.FsSeam(sb, None, None)
        for f in faults or []:
            fs.faults[f["site"]] = (f["err"], 0, f["kind"], f["rel"])
        # a vanished output directory: remove it when the first output open is reached
        old = os.getcwd()
        os.chdir(sb)
        lg = logging.getLogger("pymoca")
        lvl = lg.level
        import io
        import sys

        old_err = sys.stderr
        sys.stderr = io.StringIO()  # argparse usage messages
        try:
            with fs:
                try:
                    st = ("status", C.main(self.argv(plan, sb)))
                except SystemExit as e:
                    st = ("exit", e.code)
                except Exception as e:
                    st = ("raised", type(e).__name__)
        finally:
            sys.stderr = old_err
            lg.setLevel(lvl)
            os.chdir(old)
        return st, fs

    def invoke_casadi(self, plan, sb, faults):
        """As invoke(), with the outcome of every casadi_api.transfer_model call observed (the real function runs)."""
        import pymoca.backends.casadi.api as api

        real = api.transfer_model
        calls = []

        def transfer_model(model_folder, model_name, *a, **k):
            try:
                r = real(model_folder, model_name, *a, **k)
                calls.append((model_name, False))
                return r
            except BaseException:
                calls.append((model_name, True))
                raise

        api.transfer_model = transfer_model
        try:
            st, fs = self.invoke(plan, sb, faults)
        finally:
            api.transfer_model = real
        return st, fs, calls

    # -- reference model ------------------------------------------------------------------------------
    def reference(self, plan, sb, fired, observed=None):
        """Staged exactly as the statement's categories.  Returns dict(expected, lo, hi, why).  Computed in the
        reference process (a separate copy of the pymoca package, see procs.RefWorld)."""
        with self.ref_world:
            return self._reference(plan, sb, fired, observed)

    def _reference(self, plan, sb, fired, observed=None):
        import pymoca.ast as A
        import pymoca.parser as P
        import pymoca.tree as T

        if plan["target"] and not plan["models"]:
            return {"exit": 2, "why": "-t without -m"}
        usage = 0
        outp = os.path.join(sb, plan["outdir"])
        if not os.path.isdir(outp):
            usage += 1
        for p in plan["paths"]:
            if not os.path.exists(os.path.join(sb, p)):
                usage += 1
        bad_opts = [o for o in plan["opts"] if len(o.split("=")) != 2]
        usage += len(bad_opts)
        # files
        files = []
        for p in plan["paths"]:
            full = os.path.join(sb, p)
            if os.path.isfile(full) and full.endswith(".mo"):
                files.append(full)
            elif os.path.isdir(full):
                for root, _d, fs_ in sorted(os.walk(full)):
                    for f in sorted(fs_):
                        if f.endswith(".mo"):
                            files.append(os.path.join(root, f))
        read_faulted = {}
        for f in fired:
            if f["cat"] == "source" and plan["target"] != "casadi":  # the casadi target does not read files itself
                read_faulted[f["rel"]] = read_faulted.get(f["rel"], 0) + 1
        trees = []
        file_errors = 0
        for f in files:
            rel = os.path.relpath(f, sb)
            if read_faulted.get(rel, 0) > 0:
                read_faulted[rel] -= 1  # one failed read per fired fault (a file may be listed twice)
                file_errors += 1
                continue
            with fsim.REAL_OPEN(f, encoding="utf-8") as fh:
                t = P.parse(fh.read())
            if t is None:
                file_errors += 1
            else:
                trees.append(t)
        no_files = 0 if files else 1
        # models
        model_errors = 0
        model_detail = {}
        if plan["models"] and not usage and not file_errors and not no_files:
            pk = None
            if plan["target"] != "casadi":
                lib = A.Tree(name="ModelicaTree")
                for t in trees:
                    lib.extend(t)
                pk = pickle.dumps(lib)
            out_faulted = {}
            for f in fired:
                if f["cat"] == "output":
                    out_faulted[f["rel"]] = out_faulted.get(f["rel"], 0) + 1
            for m in plan["models"]:
                failed = False
                try:
                    if plan["target"] is None:
                        T.flatten(pickle.loads(pk), A.ComponentRef.from_string(m))
                    elif plan["target"] == "sympy":
                        import pymoca.backends.sympy.generator as S

                        S.generate(pickle.loads(pk), m, {})
                        op = os.path.join(plan["outdir"], m + ".py")
                        if out_faulted.get(op, 0) > 0:
                            out_faulted[op] -= 1  # one failed write per fired fault (a model may be requested twice)
                            failed = True
                    else:
                        import pymoca.backends.casadi.api as api

                        cands = [f for f in files if os.path.splitext(os.path.basename(f))[0] == m]
                        if len(cands) != 1:
                            failed = True
                        elif fired:
                            # a source read failed somewhere inside the CasADi API: whether that makes this model's
                            # generation fail is the API's business; the tool has to count exactly the calls that raised
                            failed = bool(observed) and observed.pop(0)[1]
                        else:
                            opts = {}
                            for o in plan["opts"]:
                                k, v = o.split("=")
                                opts[k] = True if v.lower() == "true" else (False if v.lower() == "false" else v)
                            api.transfer_model(os.path.dirname(cands[0]), m, opts)
                except Exception:
                    failed = True
                model_detail[m] = failed
                model_errors += 1 if failed else 0
        cats = {"usage": usage, "files": file_errors + no_files, "models": model_errors}
        if usage:
            expected = usage
        elif file_errors or no_files:
            expected = file_errors + no_files
        else:
            expected = model_errors
        # categories present in the INPUT (evaluated without staging) for the relaxed bound
        total = usage + file_errors + no_files
        return {"expected": expected, "cats": cats, "total_upper": total, "models": model_detail,
                "multi_category": usage > 0 and (file_errors + no_files) > 0}

    # -- sites ----------------------------------------------------------------------------------------------
    @staticmethod
    def classify_sites(trace, plan):
        """[(site index, category, kind, rel, [fault names])] for the sites a fault may hit."""
        out = []
        for i, (kind, rel, n) in enumerate(trace):
            path = rel.split(":")[0]
            if path.endswith(".mo"):
                if kind == "open" and SRC_FAULTS.get("open"):
                    out.append((i, "source", "open", path, SRC_FAULTS["open"]))
                elif kind == "read":
                    out.append((i, "source", "read", path, SRC_FAULTS["read"]))
            elif path.endswith(".py"):
                if kind in OUT_FAULTS:
                    out.append((i, "output", kind, path, OUT_FAULTS[kind]))
        return out

    def judge(self, plan, sb, st, fired, shape_tail, observed=None):
        ref = self.reference(plan, sb, fired, list(observed) if observed else None)
        if "exit" in ref:
            if st != ("exit", ref["exit"]):
                return ("wrong_exit_status", "compiler:main", [plan["target"] or "none", "argparse"] + shape_tail,
                        "argv %s: expected argparse exit %d (%s), got %r" % (self.show(plan), ref["exit"], ref["why"], st))
            return None
        got = st[1] if st[0] == "status" else (1 if st[0] == "raised" else st[1])
        exp = ref["expected"]
        if ref["multi_category"]:
            ok = 0 < (got or 0) <= ref["total_upper"]
        else:
            ok = got == exp
        if not ok:
            cat = "usage" if ref["cats"]["usage"] else ("files" if ref["cats"]["files"] else "models")
            return ("wrong_exit_status", "compiler:main", [plan["target"] or "none", cat] + shape_tail,
                    "argv %s%s: exit status %r (%s), expected %d (usage errors %d, files that cannot be read or parsed / "
                    "no file %d, failing models %d %s)" % (
                        self.show(plan), (" with faults %s" % [(f["kind"], f["rel"], f["err"]) for f in fired]) if fired else "",
                        got, st[0], exp, ref["cats"]["usage"], ref["cats"]["files"], ref["cats"]["models"],
                        {m: "fails" if v else "ok" for m, v in ref["models"].items()}))
        return None

    @staticmethod
    def show(plan):
        return ("(relative) " if plan.get("relative") else "") + " ".join(plan["paths"] + sum([["-m", m] for m in plan["models"]], []) +
                        (["-t", plan["target"]] if plan["target"] else []) + sum([["-O", o] for o in plan["opts"]], []) +
                        ["-o", plan["outdir"]] + (["-" + "v" * plan["verbose"]] if plan.get("verbose") else []))

    # -- execution ---------------------------------------------------------------------------------------------
    def execute(self, plan, replay=False):
        self.runs += 1
        log = core.EventLog(keep=True)
        counts = {}
        distinct = set()
        viol = None
        config = plan.get("config", "control")
        if plan.get("seq"):
            steps = 0
            sb = self.make_sandbox()  # ONE project folder: what an invocation leaves behind (output files) is still there
            for pos, sub in enumerate(plan["seq"]):
                st, fs = self.invoke(sub, sb, None)
                steps += len(fs.trace)
                log.add(0, 0, "invocation", "%d: %s -> %r" % (pos, self.show(sub), st))
                counts["invocations"] = counts.get("invocations", 0) + 1
                distinct.add(canon.digest(("seq", pos, tuple(sub["paths"]), tuple(sub["models"]), sub["target"],
                                           tuple(sub["opts"]), sub["outdir"])))
                viol = self.judge(sub, sb, st, [], ["sequence", "first" if pos == 0 else "later"])
                if viol:
                    viol = (viol[0], viol[1], viol[2], "invocation %d of %d by one process: %s" % (pos + 1, len(plan["seq"]), viol[3]))
                    break
            res = {"property": plan.get("property", "C26"), "verdict": "ok", "plan": plan, "counts": counts,
                   "digest": log.digest(), "sim_time_s": 0.0, "steps": steps, "distinct": {"invocation_fault": sorted(distinct)}}
            if viol:
                res["verdict"] = "violation"
                res["kind"], res["site"], res["shape"], res["detail"] = viol
                res["log_tail"] = log.tail(30)
            return res
        sb = self.make_sandbox()
        st, fs = self.invoke(plan, sb, None)
        log.add(0, 0, "control", "%s -> %r" % (self.show(plan), st))
        counts["invocations"] = 1
        inv_key = canon.digest((tuple(plan["paths"]), tuple(plan["models"]), plan["target"], tuple(plan["opts"]), plan["outdir"]))
        if len(plan["models"]) > 1:
            counts["probe:multi_model"] = 1
        if plan["faults"] is None:
            distinct.add(canon.digest((inv_key, "control")))
            viol = self.judge(plan, sb, st, [], ["no_fault"])
        sites = self.classify_sites(fs.trace, plan)
        fault_sets = []
        if viol is None and plan["faults"] is not None:
            fault_sets = [plan["faults"]]
        elif viol is None and config in ("single_faults", "casadi_faults"):
            for (i, cat, kind, rel, errs) in sites:
                for e in errs:
                    fault_sets.append([{"site": i, "err": e, "cat": cat, "kind": kind, "rel": rel}])
        elif viol is None and config == "fault_pairs" and len(sites) >= 2:
            rng = random.Random(plan["pair_seed"])
            for _ in range(6):
                a, b = rng.sample(sites, 2)
                fault_sets.append([{"site": s[0], "err": rng.choice(s[4]), "cat": s[1], "kind": s[2], "rel": s[3]}
                                   for s in sorted((a, b))])
        for faults in fault_sets:
            sb = self.make_sandbox()
            observed = None
            if plan["target"] == "casadi":
                st, fs2, observed = self.invoke_casadi(plan, sb, faults)
            else:
                st, fs2 = self.invoke(plan, sb, faults)
            fired_idx = {f[1] for f in fs2.fired}
            fired = [f for f in faults if f["site"] in fired_idx]
            for f in fired:
                counts["fault:%s_%s_%s" % (f["cat"], f["kind"], f["err"])] = counts.get(
                    "fault:%s_%s_%s" % (f["cat"], f["kind"], f["err"]), 0) + 1
            counts["fault_runs"] = counts.get("fault_runs", 0) + 1
            log.add(0, 0, "faulted", "%s -> %r" % ([(f["site"], f["err"]) for f in faults], st))
            distinct.add(canon.digest((inv_key, tuple((f["cat"], f["kind"], f["err"], f["rel"]) for f in fired))))
            # a second fault may sit on a site that is never reached once the first fired: judge by what fired
            fk = fired[0] if fired else None
            viol = self.judge(plan, sb, st, fired, [("%s_%s_%s" % (fk["cat"], fk["kind"], fk["err"])) if fk else "no_fault"],
                              observed)
            if viol:
                plan = dict(plan, faults=faults)
                break
        res = {"property": plan.get("property", "C26"), "verdict": "ok", "plan": plan, "counts": counts,
               "digest": log.digest(), "sim_time_s": 0.0, "steps": len(fs.trace), "distinct": {"invocation_fault": sorted(distinct)}}
        if viol:
            res["verdict"] = "violation"
            res["kind"], res["site"], res["shape"], res["detail"] = viol
            res["log_tail"] = log.tail(30)
        return res
