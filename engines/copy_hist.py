"""C06 — deep copies of a tree are independent of the original (DESIGN 3.C06).

A forest of trees with one owner each: T0 = parse(library); copy.deepcopy creates new trees (copies
of copies included); owners edit their trees through the AST API in an interleaved order.
Reference model: a replayed edit log per tree (fresh parse + the tree's own log, no copy involved)."""
import copy
import glob
import logging
import os
import pickle
import random

from simkit import canon, core, procs, util
from simkit.runner import ddmin_list, VERIF

EDITS = ["add_symbol", "remove_symbol", "add_equation", "remove_equation", "add_class", "remove_class",
         "add_initial_equation", "remove_initial_equation"]


def all_classes(node, prefix=()):
    for n, c in node.classes.items():
        yield ".".join(prefix + (n,))
        yield from all_classes(c, prefix + (n,))


def get_class(tree, dotted):
    node = tree
    for part in dotted.split("."):
        node = node.classes.get(part)
        if node is None:
            return None
    return node


def apply_edit(tree, e, src_tree=None):
    """Apply a resolved edit through the public AST API.  Returns False if the target is missing.
    graft_class: a copy of one class of `src_tree` (another owner's tree) is put in the place of the class of the same
    name in `tree` - the owner of `tree` takes over somebody else's version of a class."""
    import pymoca.ast as A

    c = get_class(tree, e["class"])
    if c is None:
        return False
    k = e["op"]
    if k == "add_symbol":
        s = A.Symbol(name=e["name"], type=A.ComponentRef(name="Real"))
        s.start = A.Primary(value=float(e["k"]))
        c.add_symbol(s)
    elif k == "add_redecl_symbol":
        # a component WITH a redeclaration, added through the API: `RHolder vr_N(redeclare model T = RAlt)`; the symbol
        # is taken from a parsed donor class, which is the way to obtain a well-formed one
        import pymoca.parser as P

        donor = P.parse("model Donor\n  %s %s(redeclare model T = %s);\nend Donor;\n" % (e["holder"], e["name"], e["alt"]))
        c.add_symbol(donor.classes["Donor"].symbols[e["name"]])
    elif k == "remove_symbol":
        s = c.symbols.get(e["name"])
        if s is None:
            return False
        c.remove_symbol(s)
    elif k == "add_equation":
        eq = A.Equation(left=A.ComponentRef(name=e["name"]), right=A.Primary(value=float(e["k"])))
        c.add_equation(eq)
    elif k == "remove_equation":
        if e["idx"] >= len(c.equations):
            return False
        c.remove_equation(c.equations[e["idx"]])
    elif k == "add_initial_equation":
        eq = A.Equation(left=A.ComponentRef(name=e["name"]), right=A.Primary(value=float(e["k"])))
        c.add_initial_equation(eq)
    elif k == "remove_initial_equation":
        if e["idx"] >= len(c.initial_equations):
            return False
        c.remove_initial_equation(c.initial_equations[e["idx"]])
    elif k == "add_class":
        n = A.Class(name=e["name"], type="model")
        s = A.Symbol(name="q", type=A.ComponentRef(name="Real"))
        s.start = A.Primary(value=float(e["k"]))
        n.add_symbol(s)
        c.add_class(n)
    elif k == "remove_class":
        n = c.classes.get(e["name"])
        if n is None:
            return False
        c.remove_class(n)
    elif k == "replace_class":
        # a class is replaced by a class of the same name but of the other kind (a short `type X = Real(...)` by a model
        # with a component, and the other way round)
        parent = get_class(tree, e["class"].rsplit(".", 1)[0]) if "." in e["class"] else tree
        if parent is None:
            return False
        name = e["class"].rsplit(".", 1)[-1]
        if e["to"] == "model":
            n = A.Class(name=name, type="model")
            s = A.Symbol(name="v", type=A.ComponentRef(name="Real"))
            s.start = A.Primary(value=float(e["k"]))
            n.add_symbol(s)
        else:
            n = A.Class(name=name, type="type")
            arg = A.ClassModificationArgument(
                value=A.ElementModification(component=A.ComponentRef(name="min"), modifications=[A.Primary(value=-float(e["k"]))]),
                scope=None, redeclare=False)
            n.extends = [A.ExtendsClause(component=A.ComponentRef(name="Real"),
                                         class_modification=A.ClassModification(arguments=[arg]))]
        parent.remove_class(c)
        parent.add_class(n)
    elif k == "graft_class":
        src = get_class(src_tree, e["class"])
        if src is None:
            return False
        if e["how"] == "find_class":
            cp = src_tree.find_class(A.ComponentRef.from_string(e["class"]), copy=True)
        elif e["how"] == "deepcopy":
            cp = copy.deepcopy(src)
        else:
            cp = src.copy_including_children()
        parent = get_class(tree, e["class"].rsplit(".", 1)[0]) if "." in e["class"] else tree
        if parent is None:
            return False
        parent.add_class(cp)
    return True


class Engine:
    name = "copy_hist"

    def __init__(self):
        self.libs = None
        self.cache = {}

    def lib_files(self):
        if self.libs is None:
            repo = procs.repo_root()
            own = sorted(glob.glob(os.path.join(VERIF, "models", "flatpool", "*.mo")))
            tm = [os.path.join(repo, "test", "models", f) for f in (
                "Inheritance.mo", "NestedClasses.mo", "ExtendsModification.mo", "InheritanceInstantiation.mo",
                "TreeLookup.mo", "ConnectorHQ.mo", "FunctionCall.mo", "RedeclarationScope.mo", "Spring.mo",
                "ParameterScope.mo", "ExtendsOrder.mo", "NestedSymbolModification.mo")]
            self.libs = own + [f for f in tm if os.path.exists(f)]
        return self.libs

    def load_lib(self, li):
        if li not in self.cache:
            import pymoca.parser as P

            with open(self.lib_files()[li], encoding="utf-8") as f:
                txt = f.read()
            try:
                tree = P.parse(txt)
            except Exception:
                tree = None
            if tree is None:
                self.cache[li] = None
            else:
                classes = list(all_classes(tree))
                rel = self.relations(tree, classes)
                self.cache[li] = (pickle.dumps(tree), classes, rel)
        return self.cache[li]

    @staticmethod
    def relations(tree, classes):
        """class -> {'type': [classes that have a component of this type], 'extends': [classes that extend it]}"""
        last = {}
        for c in classes:
            last.setdefault(c.split(".")[-1], []).append(c)
        rel = {c: {"type": [], "extends": []} for c in classes}
        for c in classes:
            node = get_class(tree, c)
            for s in node.symbols.values():
                tn = str(getattr(s.type, "name", "")) if not hasattr(s.type, "to_tuple") else s.type.to_tuple()[-1]
                for t in last.get(tn, []):
                    if t != c:
                        rel[t]["type"].append(c)
            for ext in node.extends:
                tn = ext.component.to_tuple()[-1]
                for t in last.get(tn, []):
                    if t != c:
                        rel[t]["extends"].append(c)
        return rel

    # -- runner interface -------------------------------------------------------------------------
    def configs(self, tier, prop):
        return [("history", 4000 if tier == "quick" else 150_000)]

    def chunk_size(self, config, tier):
        return 40

    def distinct_measure(self, prop):
        return "copy_edit_relation"

    def setup_worker(self):
        procs.import_pymoca("0.0.verif.dirty")
        import pymoca.parser  # noqa: F401
        import pymoca.tree  # noqa: F401
        import pymoca.backends.sympy.generator  # noqa: F401
        import pymoca.backends.xml.generator  # noqa: F401

        util.silence_antlr()
        lg = logging.getLogger("pymoca")
        lg.addHandler(logging.NullHandler())
        lg.propagate = False
        self.lib_files()
        self.ref_world = procs.RefWorld()

    def gen_plan(self, rng, config, tier, prop):
        n_libs = len(self.lib_files())
        ops = []
        # sometimes the original is used (flattened directly) before the first copy is taken
        for _ in range(rng.choice([0, 0, 1, 2])):
            ops.append({"op": "check", "tree": 0, "cls": rng.randrange(1000), "via": "direct"})
        ops.append({"op": "copy", "tree": 0})
        n_trees = 2
        for _ in range(rng.randint(2, 9)):
            r = rng.random()
            t = rng.randrange(n_trees)
            if r < 0.2 and n_trees < 4:
                ops.append({"op": "copy", "tree": t})
                n_trees += 1
            elif r < 0.85:
                ops.append({"op": rng.choice(EDITS + ["graft_class", "replace_class"]), "tree": t, "cls": rng.randrange(1000), "idx": rng.randrange(1000),
                            "other": rng.randrange(8), "hub": rng.random() < 0.6})
            else:
                ops.append({"op": "check", "tree": t, "cls": rng.randrange(1000),
                            "via": rng.choice(["copy", "copy", "direct", "direct", "sympy", "xml"])})
        if rng.random() < 0.3:
            # a backend generates code for a class, the owner makes a BALANCED edit of that class (one equation or symbol
            # out, one in: every count stays what it was), the backend is asked again - on the same tree, nothing else in
            # between.  Whatever the backend kept from the first call must not be used for the second.
            t = rng.randrange(n_trees)
            at = rng.randrange(1000)
            via = rng.choice(["sympy", "xml"])
            what = rng.choice(["equation", "equation", "symbol"])
            motif = [{"op": "check", "tree": t, "cls": 0, "via": via, "at": at},
                     {"op": "remove_" + what, "tree": t, "cls": 0, "idx": rng.randrange(1000), "other": 0, "hub": False, "at": at},
                     {"op": "add_" + what, "tree": t, "cls": 0, "idx": rng.randrange(1000), "other": 0, "hub": False, "at": at},
                     {"op": "check", "tree": t, "cls": 0, "via": via, "at": at}]
            pos = rng.randrange(2, len(ops) + 1)
            ops[pos:pos] = motif
        lib = rng.randrange(n_libs)
        if rng.random() < 0.12:
            # a component with a redeclaration is added through the API, THEN the tree is copied, then the class named by
            # the redeclaration is edited in one of the two trees: each tree flattens to what its own edits say
            # (only the RedeclApi library has the classes this needs)
            rl = [i for i, f in enumerate(self.lib_files()) if os.path.basename(f) == "RedeclApi.mo"]
            if rl:
                lib = rl[0]
                t = rng.randrange(n_trees)
                new = n_trees
                n_trees += 1
                side = rng.choice([t, new, new])
                motif = [{"op": "add_redecl_symbol", "tree": t, "cls": 0, "idx": 0, "other": 0, "hub": False, "at_name": "RTarget"},
                         {"op": "copy", "tree": t}]
                if rng.random() < 0.4:
                    motif.append({"op": "copy", "tree": new})
                    n_trees += 1
                    side = rng.choice([t, new, new + 1])
                motif.append({"op": rng.choice(["add_symbol", "add_symbol", "remove_symbol", "replace_class", "add_equation"]),
                              "tree": side, "cls": 0, "idx": rng.randrange(1000), "other": rng.randrange(8), "hub": False,
                              "at_name": "RAlt"})
                motif.append({"op": "check", "tree": rng.choice([t, new]), "cls": 0, "via": rng.choice(["copy", "direct"]),
                              "at_name": "RTarget"})
                ops.extend(motif)
        if rng.random() < 0.4:
            ops.append({"op": "check", "tree": rng.randrange(n_trees), "cls": rng.randrange(1000), "via": "direct_last"})
        return {"lib": lib, "ops": ops}

    def shrink_candidates(self, plan):
        for cand in ddmin_list(plan["ops"]):
            p = copy.deepcopy(plan)
            p["ops"] = copy.deepcopy(cand)
            yield p
        for i, op in enumerate(plan["ops"]):
            if op.get("tree", 0) != 0:
                p = copy.deepcopy(plan)
                p["ops"][i]["tree"] = 0
                yield p
            if op.get("via") in ("direct", "sympy", "xml"):
                p = copy.deepcopy(plan)
                p["ops"][i]["via"] = "copy"
                yield p

    # -- flatten helpers ----------------------------------------------------------------------------
    @staticmethod
    def flat(tree, cls, via="direct", T=None):
        """T: the pymoca.tree module instance to flatten with (the run's own for the trees under test, a pristine one
        for every reference computation, see procs.tree_module); the SymPy / XML backends are bound to the shared one."""
        import pymoca.ast as A

        if T is None:
            import pymoca.tree as T

        try:
            if via == "sympy":
                import pymoca.backends.sympy.generator as S

                return "ok", canon.digest(S.generate(tree, cls, {}))
            if via == "xml":
                import pymoca.backends.xml.generator as X

                return "ok", canon.digest(X.generate(tree, cls))
            if via == "copy":
                tree = copy.deepcopy(tree)
            return "ok", canon.tree_digest(T.flatten(tree, A.ComponentRef.from_string(cls)))
        except Exception as e:  # incl. RecursionError: endless lookups are an outcome of the code under test too
            return "fail", type(e).__name__

    def execute(self, plan, replay=False):
        lib = self.load_lib(plan["lib"])
        log = core.EventLog(keep=True)
        counts = {}
        distinct = set()
        viol = None
        libname = os.path.basename(self.lib_files()[plan["lib"]])
        if lib is not None:
            pk, classes, rel = lib
            hubs = [c for c in classes if rel[c]["type"] or rel[c]["extends"]] or classes
            dependents = sorted({d for c in classes for d in rel[c]["type"] + rel[c]["extends"]})
            trees = [pickle.loads(pk)]
            logs = [[]]  # per tree: list of resolved edits
            depth = [0]
            direct_done = set()
            uniq = [0]
            sut_tree_mod = procs.tree_module()  # this run is one simulated process

            def replay(edits):
                t = pickle.loads(pk)
                for e in edits:
                    apply_edit(t, e, replay(e["src_log"]) if e["op"] == "graft_class" else None)
                return t

            def ref_tree(i):
                return replay(logs[i])

            def check(i, cls, via, what, shape):
                """Flatten `cls` on tree i and on its replayed-log reference."""
                if i in direct_done:
                    return None
                got = self.flat(trees[i], cls, "direct" if via == "direct_last" else via, sut_tree_mod)
                with self.ref_world:
                    # the reference process: its own copy of the pymoca package; only the digest leaves the block
                    want = self.flat(ref_tree(i), cls, "direct" if via in ("copy", "direct", "direct_last") else via,
                                     procs.tree_module())
                if via == "direct_last":
                    direct_done.add(i)
                log.add(0, i, "check", "%s %s %s %s" % (cls, via, got[0], want[0]))
                counts["checks"] = counts.get("checks", 0) + 1
                if got[0] == "fail" and want[0] == "fail":
                    return None
                if got != want:
                    kind = "exception" if got[0] == "fail" else "wrong_result"
                    return (kind, "ast:Class.__deepcopy__", shape, "%s: %s: flatten(%s) of tree %d (copy depth %d) via %s "
                            "gives %s, a fresh parse with the tree's own edits %s gives %s" % (
                                libname, what, cls, i, depth[i], via, got if got[0] == "fail" else "a different model",
                                [e["op"] for e in logs[i]], want if want[0] == "fail" else "the expected model"))
                return None

            for opi, op in enumerate(plan["ops"]):
                k = op["op"]
                i = op.get("tree", 0) % len(trees)
                if i in direct_done:
                    continue
                if k == "copy":
                    try:
                        trees.append(copy.deepcopy(trees[i]))
                    except Exception as e:
                        viol = ("exception", util.exc_site(e), ["copy", depth[i]], "deepcopy of tree %d raised %r" % (i, e))
                        break
                    logs.append(list(logs[i]))
                    depth.append(depth[i] + 1)
                    counts["probe:copy"] = counts.get("probe:copy", 0) + 1
                    if depth[-1] >= 2:
                        counts["probe:copy_of_copy"] = counts.get("probe:copy_of_copy", 0) + 1
                    log.add(opi, i, "copy", str(depth[-1]))
                    continue
                rt = ref_tree(i)
                cur = list(all_classes(rt))
                if not cur:
                    continue
                if k == "check":
                    deps = [c for c in dependents if c in cur]
                    pick_from = deps if deps and op["cls"] % 10 < 7 else cur
                    cls = pick_from[(op["cls"] // 10) % len(pick_from)]
                    if "at" in op:
                        with_eq = [c for c in cur if get_class(rt, c).equations] or cur
                        cls = with_eq[op["at"] % len(with_eq)]
                    if "at_name" in op:
                        named = [c for c in cur if c.split(".")[-1] == op["at_name"]]
                        if not named:
                            continue
                        cls = named[0]
                    viol = check(i, cls, op["via"], "explicit check", ["check", op["via"], depth[i]])
                    if viol:
                        break
                    continue
                # ---- an edit: resolve it against the reference state of tree i
                pool_ = [c for c in hubs if c in cur] if op.get("hub") else cur
                pool_ = pool_ or cur
                cls = pool_[op["cls"] % len(pool_)]
                if "at" in op:
                    with_eq = [c for c in cur if get_class(rt, c).equations] or cur
                    cls = with_eq[op["at"] % len(with_eq)]
                if "at_name" in op:
                    named = [c for c in cur if c.split(".")[-1] == op["at_name"]]
                    if not named:
                        continue
                    cls = named[0]
                node = get_class(rt, cls)
                uniq[0] += 1
                e = {"op": k, "class": cls, "k": uniq[0]}
                if k == "add_symbol":
                    e["name"] = "vs_%d" % uniq[0]
                elif k == "add_redecl_symbol":
                    sib = {c.split(".")[-1] for c in cur if c.rsplit(".", 1)[0] == cls.rsplit(".", 1)[0]}
                    if not {"RHolder", "RAlt"} <= sib:
                        continue
                    e["name"], e["holder"], e["alt"] = "vr_%d" % uniq[0], "RHolder", "RAlt"
                elif k == "remove_symbol":
                    if not node.symbols:
                        continue
                    e["name"] = list(node.symbols)[op["idx"] % len(node.symbols)]
                elif k in ("add_equation", "add_initial_equation"):
                    names = [n for n, s in node.symbols.items()]
                    if not names:
                        continue
                    e["name"] = names[op["idx"] % len(names)]
                elif k == "remove_initial_equation":
                    if not node.initial_equations:
                        continue
                    e["idx"] = op["idx"] % len(node.initial_equations)
                elif k == "remove_equation":
                    if not node.equations:
                        continue
                    e["idx"] = op["idx"] % len(node.equations)
                elif k == "add_class":
                    e["name"] = "VC_%d" % uniq[0]
                elif k == "remove_class":
                    if not node.classes:
                        continue
                    e["name"] = list(node.classes)[op["idx"] % len(node.classes)]
                src_i = None
                if k == "replace_class":
                    e["to"] = "model" if getattr(node, "type", "") == "type" else "type"
                if k == "graft_class":
                    donors = [j for j in range(len(trees)) if j != i and j not in direct_done]
                    if not donors:
                        continue
                    src_i = donors[op["other"] % len(donors)]
                    if get_class(ref_tree(src_i), cls) is None:
                        continue
                    e["how"] = ["find_class", "deepcopy", "children"][op["idx"] % 3]
                    e["src_log"] = list(logs[src_i])
                try:
                    ok = apply_edit(trees[i], e, trees[src_i] if src_i is not None else None)
                except Exception as ex:
                    viol = ("exception", util.exc_site(ex), [k, depth[i], "edit"], "edit %s on tree %d raised %r" % (e, i, ex))
                    break
                if not ok:
                    viol = ("wrong_result", "ast:Class.__deepcopy__", [k, depth[i], "edit_target_missing"],
                            "%s: edit %s: the target exists in a fresh parse with tree %d's own edits, but not in tree %d "
                            "(copy depth %d)" % (libname, e, i, i, depth[i]))
                    break
                logs[i].append(e)
                counts["probe:" + k] = counts.get("probe:" + k, 0) + 1
                log.add(opi, i, k, "%s %s" % (cls, e.get("name", e.get("idx"))))
                # ---- after every edit: edited class, a class reaching it via a component type, one via extends;
                #      on the edited tree (visible) and on one other tree (invisible)
                targets = [("same", cls)]
                if rel.get(cls, {}).get("type"):
                    targets.append(("via_type", rel[cls]["type"][op["idx"] % len(rel[cls]["type"])]))
                if rel.get(cls, {}).get("extends"):
                    targets.append(("via_extends", rel[cls]["extends"][op["idx"] % len(rel[cls]["extends"])]))
                others = [j for j in range(len(trees)) if j != i and j not in direct_done]
                if src_i is not None:
                    others = [src_i]  # the donor must not notice that a copy of its class was taken
                sides = [("visible", i)] + ([("invisible", others[op["other"] % len(others)])] if others else [])
                for relname, tcls in targets:
                    if tcls not in cur and relname != "same":
                        continue
                    for side, j in sides:
                        distinct.add(canon.digest((libname, depth[j], k, relname, side)))
                        viol = check(j, tcls, "copy", "after %s on tree %d" % (k, i), [depth[j], k, relname, side])
                        if viol:
                            break
                    if viol:
                        break
                if viol:
                    break
        res = {"property": plan.get("property", "C06"), "verdict": "ok", "plan": plan, "counts": counts,
               "digest": log.digest(), "sim_time_s": 0.0, "steps": len(plan["ops"]),
               "distinct": {"copy_edit_relation": sorted(distinct)}}
        if viol:
            res["verdict"] = "violation"
            res["kind"], res["site"], res["shape"], res["detail"] = viol
            res["log_tail"] = log.tail(30)
        return res
