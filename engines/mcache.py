"""Model cache engine: C19 (round trip), C20 (never stale), C21 (interrupted / in-progress write).

A model folder and a library folder in the sandbox; simulated processes (module instances of
pymoca.backends.casadi.api) call the real transfer_model; the simulated clock stamps every file;
the file seam records / interrupts / interleaves the cache write.  Reference = fresh compile of
the current sources with the current options in a pristine process (cache off)."""
import copy
import gc
import os
import random
import shutil

from models import cachepool as cp
from simkit import canon, core, fsim, mcanon, procs, util
from simkit.runner import ddmin_list

DIRTY = "0.0.verif.dirty"  # global label: keeps the parse cache (C01/C02 territory) out of these verdicts
LABELS = ["1.0.sim", "1.1.sim", "2.0.sim"]
CLOCK_DELTAS = [1, 60, 86400, 40 * 86400, -3600, -3 * 86400]
MODELS = list(cp.POOL)


def _vals(rng):
    v = {k: rng.randint(1, 9) for k in "abcde"}
    v["ws"] = rng.randint(0, 1)  # whitespace that matters (see cachepool.render)
    return v


class World:
    """Harness-side state of one run: folders, current sources, options, label."""

    # folder layouts: (model folder, library folder) relative to the sandbox.  1: siblings whose names share a string
    # prefix; 2: the library lies inside the model folder (its files are then found by both walks)
    # 3: names with blanks and glob metacharacters
    LAYOUTS = [("m", "lib"), ("m", "m_lib"), ("m", os.path.join("m", "libs")), ("run [1]", "lib [v2]*")]

    def __init__(self, sandbox, clock, name, vals_seed, symlink_sub=None, layout=0):
        self.sandbox = sandbox
        self.clock = clock
        self.name = name
        self.layout = layout
        self.mdir = os.path.join(sandbox, self.LAYOUTS[layout][0])
        self.ldir = os.path.join(sandbox, self.LAYOUTS[layout][1])
        self.ldir2 = os.path.join(sandbox, "lib_b")  # second library folder (pool entries with a "lib2" part)
        os.makedirs(self.mdir)
        os.makedirs(self.ldir2)
        if symlink_sub is None:
            symlink_sub = vals_seed % 2 == 1
        if symlink_sub:
            # the library's sub-directory is a link to a folder elsewhere (a shared library linked in)
            os.makedirs(self.ldir)
            os.makedirs(os.path.join(sandbox, "shared_sub"))
            os.symlink(os.path.join(sandbox, "shared_sub"), os.path.join(self.ldir, "sub"))
        else:
            os.makedirs(os.path.join(self.ldir, "sub"))
        self.ent = cp.POOL[name]
        rng = random.Random(vals_seed)
        self.files = {}  # key "model:Tank.mo" -> (vals, extra)
        for fn in self.ent["model"]:
            self.files["model:" + fn] = (_vals(rng), False)
        for fn in self.ent["lib"]:
            self.files["lib:" + fn] = (_vals(rng), False)
        for fn in self.ent.get("lib2", {}):
            self.files["lib2:" + fn] = (_vals(rng), False)
        self.late = dict(self.ent.get("late", {}))
        for k in self.files:
            self.write(k)
        self.cache_file = os.path.join(self.mdir, name + ".pymoca_cache")

    @classmethod
    def restore(cls, sandbox, clock, name, files, late, layout=0):
        """The world of an earlier simulated process of the same run (nothing is written)."""
        w = cls.__new__(cls)
        w.sandbox, w.clock, w.name = sandbox, clock, name
        w.layout = layout
        w.mdir = os.path.join(sandbox, cls.LAYOUTS[layout][0])
        w.ldir = os.path.join(sandbox, cls.LAYOUTS[layout][1])
        w.ldir2 = os.path.join(sandbox, "lib_b")
        w.ent = cp.POOL[name]
        w.files = {k: (dict(v[0]), bool(v[1])) for k, v in files.items()}
        w.late = dict(late)
        w.cache_file = os.path.join(w.mdir, name + ".pymoca_cache")
        return w

    def path(self, key):
        where, fn = key.split(":")
        return os.path.join({"model": self.mdir, "lib": self.ldir, "lib2": self.ldir2}[where], fn)

    def template(self, key):
        where, fn = key.split(":")
        if key in self.ent.get("late", {}):
            return self.ent["late"][key]
        return self.ent[where][fn]

    def write(self, key, mtime_us=None):
        vals, extra = self.files[key]
        p = self.path(key)
        with fsim.REAL_OPEN(p, "w") as f:
            f.write(cp.render(self.template(key), vals, extra))
        # file times come from the file system's clock, which may be off from the process's (clock.fs_skew_us)
        t = (self.clock.now_us + getattr(self.clock, "fs_skew_us", 0) if mtime_us is None else mtime_us) * 1000
        os.utime(p, ns=(t, t))

    def cache_mtime_us(self):
        try:
            return os.stat(self.cache_file).st_mtime_ns // 1000
        except OSError:
            return None

    def edit_time_us(self):
        """Every edit is strictly later than the cache (the property's precondition), also when
        the clock has jumped backwards."""
        t = self.clock.now_us + getattr(self.clock, "fs_skew_us", 0)
        cm = self.cache_mtime_us()
        if cm is not None and t <= cm + 1000:
            t = cm + 1000
        return t

    def switch_library(self, vals):
        """The caller starts using ANOTHER library folder: a newer copy of the library (every file written later than
        the cache, one of them with other content).  Returns False when the model has no library."""
        if not self.ent["lib"]:
            return False
        self.lib_gen = getattr(self, "lib_gen", 0) + 1
        new = os.path.join(self.sandbox, "lib_v%d" % (self.lib_gen + 1))
        os.makedirs(os.path.join(new, "sub"), exist_ok=True)
        self.ldir = new
        first = True
        for key in sorted(k for k in self.files if k.startswith("lib:")):
            if first:
                self.files[key] = (vals, self.files[key][1])
                first = False
            self.write(key, self.edit_time_us())
        return True

    def lib_folders(self):
        return [self.ldir] + ([self.ldir2] if self.ent.get("lib2") else [])

    def options(self, optset, mode):
        o = dict(cp.OPTION_SETS[optset])
        o["library_folders"] = self.lib_folders()
        if mode == "codegen":
            o["codegen"] = True
        else:
            o["cache"] = True
        return o

    def ref_options(self, optset):
        o = dict(cp.OPTION_SETS[optset])
        o["library_folders"] = self.lib_folders()
        o["cache"] = False
        o["codegen"] = False
        o["expand_mx"] = True
        return o


def build_functions(model):
    for n in mcanon.FUNCS:
        getattr(model, n + "_function")


class Engine:
    name = "mcache"

    def __init__(self):
        self.runs = 0
        self._crash_points = {}
        self._prep_error = {}

    # -- runner interface ----------------------------------------------------------------------
    def configs(self, tier, prop):
        if prop == "C20":
            # edit_race: a source is edited WHILE transfer_model calls are running (file-operation granularity)
            return [("history", 600 if tier == "quick" else 40_000), ("codegen", 16 if tier == "quick" else 600),
                    ("edit_race", 120 if tier == "quick" else 8_000)]
        if prop == "C19":
            n = len(MODELS) * len(cp.OPTION_SETS)
            # roundtrip_codegen: the compiled-library format (every simulated process a child interpreter, seconds per build)
            return [("roundtrip", n * (2 if tier == "quick" else 40)), ("roundtrip_codegen", 8 if tier == "quick" else 300)]
        if prop == "C21":
            out = []
            models = ["Tank", "UsesLib"] if tier == "quick" else MODELS
            for m in models:
                for pre in (0, 1):
                    cfg = "crash:%s:%d:%s" % (m, pre, tier)
                    out.append((cfg, len(self.crash_points(cfg))))
            for m in (models + ["Big"] if tier == "quick" else models):
                cfg = "trunc:%s:%s" % (m, tier)
                out.append((cfg, len(self.trunc_points(cfg))))
            out.append(("race", 400 if tier == "quick" else 20_000))
            # compiled-library format: a kill between the rebuilt libraries and the cache file that describes them
            out.append(("codegen_crash", 16 if tier == "quick" else 400))
            return out
        raise ValueError(prop)

    def chunk_size(self, config, tier):
        return 1 if "codegen" in config else 40

    def selftest_n(self, config, tier):
        # a codegen run costs ~10 s (child interpreters + gcc): repeat only a few of them for the determinism self-test
        return (2 if tier == "quick" else 8) if "codegen" in config else 10 ** 9

    def min_cap(self, plan):
        return 25 if plan.get("kind") == "codegen" else 300

    def distinct_measure(self, prop):
        return {"C20": "history_states", "C19": "roundtrips", "C21": "crash_points_and_schedules"}[prop]

    def setup_worker(self):
        procs.import_pymoca(DIRTY)
        import pymoca.parser  # noqa: F401
        import pymoca.backends.casadi.api  # noqa: F401

        core.install_clock_seam()
        core.install_lock_seam(procs.repo_root())
        fsim.install()
        util.silence_antlr()
        import logging

        lg = logging.getLogger("pymoca")
        lg.addHandler(logging.NullHandler())
        lg.propagate = False
        self.ref_world = procs.RefWorld()

    # -- reference -------------------------------------------------------------------------------
    def reference(self, world, optset, label):
        """(model or None, error text or None): fresh compile, cache off, pristine process,
        including construction of the four functions."""
        with self.ref_world:
            # the reference process: a separate copy of the whole package (no module-level state shared with the code
            # under test); the model it returns is only read afterwards
            p = procs.ApiProcess(label)
            try:
                m = p.transfer_model(world.mdir, world.name, world.ref_options(optset))
                build_functions(m)
                return m, None
            except Exception as e:
                return None, "%s: %s" % (type(e).__name__, str(e)[:120])

    def judge(self, world, optset, label, got, err, shape, what, defer=None):
        """Compare one transfer_model outcome with the reference.  Returns a violation tuple or None.
        With `defer` (a list) the reference is built now - from the sources as they are now - but the model that was
        returned is not looked at before the caller runs the stored closure: a caller may keep a model and use it
        later, after other calls, edits and rebuilds."""
        ref, ref_err = self.reference(world, optset, label)
        if defer is not None and ref is not None and err is None:
            shape = list(shape) + ["used_later"]
            defer.append(lambda: self._judge(ref, ref_err, got, err, shape, what + ", model used only at the end"))
            return None
        return self._judge(ref, ref_err, got, err, shape, what)

    @staticmethod
    def _judge(ref, ref_err, got, err, shape, what):
        if ref is None:
            if err is None:
                # the cached call returned something although a fresh compile of the current sources fails
                return ("stale_model", "api:transfer_model", shape,
                        "%s: a model was returned although compiling the current sources fails (%s)" % (what, ref_err))
            return None
        if err is not None:
            return ("exception", err[1], shape, "%s: raised %s although a fresh compile succeeds" % (what, err[0]))
        try:
            diff = mcanon.compare(ref, got, seed=7)
        except Exception as e:
            diff = "comparison raised %s: %s" % (type(e).__name__, str(e)[:200])
        if diff is not None:
            return ("stale_model" if shape and shape[0] != "roundtrip" else "wrong_model", "api:transfer_model", shape,
                    "%s: returned model differs from a fresh compile: %s" % (what, diff))
        return None

    @staticmethod
    def call(proc, world, optset, mode):
        """(model, None) or (None, (repr, site))"""
        try:
            m = proc.transfer_model(world.mdir, world.name, world.options(optset, mode))
            return m, None
        except (core.SimCrash, core.HarnessAbort):
            raise
        except Exception as e:
            return None, (repr(e)[:300], util.exc_site(e))

    # -- plans -------------------------------------------------------------------------------------
    def gen_plan(self, rng, config, tier, prop):
        if config == "history":
            return self.gen_history(rng)
        if config == "codegen":
            p = self.gen_history(rng, codegen=True)
            return p
        if config == "codegen_crash":
            return self.gen_codegen_crash(rng)
        if config == "roundtrip":
            # prior: the folder already holds a cache built for another option set; mutate: the caller changes the models
            # it was given (its own objects) before asking again in the same process
            return {"kind": "roundtrip", "vals_seed": rng.randrange(1 << 30), "third": rng.random() < 0.5,
                    "chdir": rng.random() < 0.5, "extra": rng.random() < 0.3,
                    "prior": rng.randrange(len(cp.OPTION_SETS)) if rng.random() < 0.35 else None,
                    "mutate": rng.random() < 0.5, "layout": rng.choice([0, 0, 1, 2])}
        if config == "roundtrip_codegen":
            name = rng.choice(["Tank", "Ali", "Str", "UsesLib"])
            optset = rng.randrange(len(cp.OPTION_SETS))
            ops = []
            if getattr(rng, "run_index", 0) % 2 == 0:
                # an earlier build for other options left its libraries in the folder; sets 2, 4, 5, 7 change the
                # functions' signatures, which makes a mix-up visible whatever the model
                prior = self._other_optset(rng, name, optset)
                ops += [{"op": "options", "set": prior}, {"op": "transfer"}, {"op": "restart"}, {"op": "options", "set": optset}]
            ops += [{"op": "transfer"}, {"op": "restart"}, {"op": "transfer"}, {"op": "restart"}, {"op": "transfer"}]
            if getattr(rng, "run_index", 0) % 2 == 1:
                # a caller loads the model and keeps it; then the libraries are rebuilt for other options (by this or any
                # other process); only then does the first caller use its model
                other = self._other_optset(rng, name, optset)
                ops = [{"op": "transfer"}, {"op": "restart"}, {"op": "transfer", "defer": True},
                       {"op": "options", "set": other}, {"op": "transfer"}]
            return {"kind": "codegen", "roundtrip": True, "model": name, "vals_seed": rng.randrange(1 << 30), "ops": ops,
                    "optset": optset, "mode": "codegen", "avoid": True, "hold_models": False, "layout": rng.choice([0, 1])}
        if config.startswith("crash:"):
            return {"kind": "crash", "vals_seed": rng.randrange(1 << 30)}
        if config.startswith("trunc:"):
            return {"kind": "trunc", "vals_seed": rng.randrange(1 << 30)}
        if config == "edit_race":
            return {"kind": "race", "editor": True, "model": rng.choice([m for m in MODELS if not cp.POOL[m].get("late")]),
                    "vals_seed": rng.randrange(1 << 30), "pre": rng.choice(["none", "valid", "valid"]),
                    "optsets": [0, 0] if rng.random() < 0.6 else [rng.randrange(len(cp.OPTION_SETS))] * 2,
                    "n_actors": rng.choice([1, 1, 2]), "chunk": None, "edit_after": rng.randint(0, 14),
                    "edit_vals": _vals(rng), "sched_seed": rng.randrange(1 << 62), "cost": [50, 2000]}
        if config == "race":
            return {"kind": "race", "model": rng.choice(MODELS), "vals_seed": rng.randrange(1 << 30),
                    "pre": rng.choice(["none", "valid", "stale"]), "optsets": [rng.randrange(len(cp.OPTION_SETS)),
                                                                                 rng.randrange(len(cp.OPTION_SETS))]
                    if rng.random() < 0.4 else [0, 0], "n_actors": rng.choice([2, 2, 3]),
                    "chunk": rng.choice([None, None, 4096, 1000, 300]),
                    "sched_seed": rng.randrange(1 << 62), "cost": [50, 2000]}
        raise ValueError(config)

    @staticmethod
    def _other_optset(rng, name, optset):
        """An option set whose compiled functions certainly differ from those of `optset` for this model (so that a
        mix-up of libraries is visible): with / without parameters replaced by their values, for the model without
        parameters with / without alias detection."""
        if rng.random() < 0.2:
            return rng.choice([i for i in range(len(cp.OPTION_SETS)) if i != optset])
        a = 2 if name == "Ali" else 5
        return a if optset != a else 0

    def gen_codegen_crash(self, rng):
        """C21 for the compiled-library format: build, something that forces a rebuild (other options, an edit, another
        version), the rebuilding process is killed at a file operation of its choice (between the four library builds,
        inside the cache-file write ...), then new processes ask again - half of them with the options / version the
        surviving cache file was written for."""
        name = rng.choice(["Tank", "Ali", "Str", "UsesLib"])
        ent = cp.POOL[name]
        keys = ["model:" + f for f in ent["model"]] + ["lib:" + f for f in ent["lib"]] + ["lib2:" + f for f in ent.get("lib2", {})]
        opt_a = 0 if rng.random() < 0.5 else rng.randrange(len(cp.OPTION_SETS))
        opt_b = self._other_optset(rng, name, opt_a)
        cause = rng.choice(["options", "options", "options", "edit", "version", "none"])
        ops = []
        if cause != "none":
            ops.append({"op": "transfer"})
            ops.append({"op": "restart"})
        if cause == "options":
            ops.append({"op": "options", "set": opt_b})
        elif cause == "edit":
            ops.append({"op": "edit", "file": rng.choice(keys), "vals": _vals(rng), "extra": rng.random() < 0.25})
        elif cause == "version":
            ops.append({"op": "version", "label": 1})
        # a rebuilding call performs ~24 file operations: the attempt to load (scan, open, read, close), the compile
        # (scan, read sources), per library the removal of its .c and .o once it is linked, then the cache file's
        # open / write / close / replace
        ops.append({"op": "transfer", "crash_at": rng.choice([rng.randint(0, 26), rng.randint(12, 24), rng.randint(12, 24)])})
        ops.append({"op": "restart"})
        if cause == "options" and rng.random() < 0.8:
            ops.append({"op": "options", "set": opt_a})
        if cause == "version" and rng.random() < 0.8:
            ops.append({"op": "version", "label": 0})
        ops += [{"op": "transfer"}, {"op": "restart"}, {"op": "transfer"}]
        return {"kind": "codegen", "crash": True, "model": name, "vals_seed": rng.randrange(1 << 30), "ops": ops, "optset": opt_a,
                "mode": "codegen", "avoid": True, "hold_models": False}

    def gen_history(self, rng, codegen=False):
        name = rng.choice(MODELS if not codegen else ["Tank", "Ali", "Str", "UsesLib"])
        if not codegen and rng.random() < 0.25:
            name = rng.choice(["UsesLib", "TwoLibs"])  # the models with library folders
        ent = cp.POOL[name]
        keys = ["model:" + f for f in ent["model"]] + ["lib:" + f for f in ent["lib"]] + ["lib2:" + f for f in ent.get("lib2", {})]
        kinds = {"transfer": 6, "edit": 4}
        for k, w in (("options", 1.5), ("version", 1), ("restart", 1.5), ("clock", 1.5)):
            if rng.random() < 0.7:
                kinds[k] = w
        if ent["lib"] and not codegen and rng.random() < 0.6:
            kinds["switch_lib"] = 1.5
        if ent.get("late"):
            kinds["add"] = 2
        names = list(kinds)
        ops = [{"op": "transfer"}]
        for _ in range(rng.randint(2, 10)):
            k = rng.choices(names, [kinds[x] for x in names])[0]
            if k == "transfer":
                ops.append({"op": "transfer"})
            elif k == "edit":
                ops.append({"op": "edit", "file": rng.choice(keys), "vals": _vals(rng), "extra": rng.random() < 0.25})
                if rng.random() < 0.2:
                    ops[-1]["ws_only"] = True
            elif k == "add":
                ops.append({"op": "add"})
            elif k == "options":
                ops.append({"op": "options", "set": rng.randrange(len(cp.OPTION_SETS))})
            elif k == "version":
                ops.append({"op": "version", "label": rng.randrange(len(LABELS))})
            elif k == "restart":
                ops.append({"op": "restart"})
            elif k == "switch_lib":
                ops.append({"op": "switch_lib", "vals": _vals(rng)})
            else:
                ops.append({"op": "clock", "delta_s": rng.choice(CLOCK_DELTAS)})
        ops.append({"op": "transfer"})
        optset0 = rng.randrange(len(cp.OPTION_SETS)) if rng.random() < 0.5 else 0
        if name == "Iter" and rng.random() < 0.6:
            optset0 = rng.choice([8, 9])
        if rng.random() < 0.3:
            ops = self._revisit_motif(rng, keys, optset0)
        for o in ops:
            if o["op"] == "transfer" and rng.random() < 0.2:
                o["defer"] = True  # the caller keeps the model and uses it only at the end of the history
        plan = {"kind": "history", "model": name, "vals_seed": rng.randrange(1 << 30), "ops": ops,
                "optset": optset0, "mode": "cache", "layout": rng.choice([0, 0, 1, 2, 3]),
                # the clock that stamps the files (a file server's, say) against the clock of the process
                "fs_skew_s": rng.choice([0, 0, 0, 3600, -3600, -2 * 86400, 90])}
        if codegen:
            # compiled shared libraries: every simulated process is a real child interpreter (dlopen state belongs to
            # the OS process).  Short histories: a build costs seconds.
            ops = [o for o in ops if o["op"] != "clock"][:6]
            if rng.random() < 0.4:
                ops = [o for o in self._revisit_motif(rng, keys, plan["optset"]) if o["op"] != "restart"][:8]
                while ops[-1]["op"] != "transfer":
                    ops.pop()
                ops = ops[:-1]  # two transfers are appended below
            if not any(o["op"] == "edit" for o in ops):
                ops.insert(1, {"op": "edit", "file": "model:" + next(iter(cp.POOL[name]["model"])), "vals": _vals(rng), "extra": False})
            ops += [{"op": "transfer"}, {"op": "transfer"}]
            # half of the runs stay clear of the known stale-dlopen finding: every transfer in a process of its own
            avoid = rng.random() < 0.5
            if avoid:
                out = []
                for o in ops:
                    if o["op"] == "transfer" and out and out[-1]["op"] != "restart":
                        out.append({"op": "restart"})
                    out.append(o)
                ops = out
            plan.update(kind="codegen", mode="codegen", ops=ops, optset=0 if rng.random() < 0.6 else plan["optset"], avoid=avoid,
                        hold_models=rng.random() < 0.7)
        return plan

    @staticmethod
    def _revisit_motif(rng, keys, optset0):
        """A -> B -> A: the state a cache was built for comes back after the cache was rebuilt for another one (options,
        version, or file contents), with or without an edit on the way.  Purely random histories rarely do this."""
        what = rng.choice(["options", "options", "version", "content"])
        ops = [{"op": "transfer"}]

        def maybe_edit(p):
            if rng.random() < p:
                ops.append({"op": "edit", "file": rng.choice(keys), "vals": _vals(rng), "extra": rng.random() < 0.25})

        def maybe_restart():
            if rng.random() < 0.4:
                ops.append({"op": "restart"})

        other = rng.choice([i for i in range(len(cp.OPTION_SETS)) if i != optset0])
        if optset0 in (8, 9) and rng.random() < 0.6:
            other = 17 - optset0  # differs only in an option the API honours without declaring it
        vals0 = _vals(rng)
        key = rng.choice(keys)
        if what == "content":
            ops.insert(0, {"op": "edit", "file": key, "vals": vals0, "extra": False})
        for leg in (1, 0, 1, 0)[: rng.choice([2, 2, 4])]:
            maybe_edit(0.5 if what != "content" else 0.0)
            if what == "options":
                ops.append({"op": "options", "set": other if leg else optset0})
            elif what == "version":
                ops.append({"op": "version", "label": 1 if leg else 0})
            else:
                ops.append({"op": "edit", "file": key, "vals": _vals(rng) if leg else vals0, "extra": False})
            maybe_restart()
            ops.append({"op": "transfer"})
            if rng.random() < 0.3:
                ops.append({"op": "transfer"})
        return ops

    def shrink_candidates(self, plan):
        if plan["kind"] in ("history", "codegen"):
            for cand in ddmin_list(plan["ops"]):
                p = copy.deepcopy(plan)
                p["ops"] = copy.deepcopy(cand)
                yield p
            if plan["optset"] != 0:
                p = copy.deepcopy(plan)
                p["optset"] = 0
                yield p
            if plan.get("layout"):
                p = copy.deepcopy(plan)
                p["layout"] = 0
                yield p
            if plan.get("fs_skew_s"):
                p = copy.deepcopy(plan)
                p["fs_skew_s"] = 0
                yield p
            for i, op in enumerate(plan["ops"]):
                for flag in ("defer", "ws_only"):
                    if op.get(flag):
                        p = copy.deepcopy(plan)
                        del p["ops"][i][flag]
                        yield p
            for i, op in enumerate(plan["ops"]):
                if op["op"] == "edit" and op["extra"]:
                    p = copy.deepcopy(plan)
                    p["ops"][i]["extra"] = False
                    yield p
                if op["op"] == "clock" and op["delta_s"] != 1:
                    p = copy.deepcopy(plan)
                    p["ops"][i]["delta_s"] = 1
                    yield p
        elif plan["kind"] == "race":
            if plan["n_actors"] > 2:
                p = copy.deepcopy(plan)
                p["n_actors"] = 2
                yield p
            if plan["optsets"] != [0, 0]:
                p = copy.deepcopy(plan)
                p["optsets"] = [0, 0]
                yield p
            if plan["pre"] != "none":
                p = copy.deepcopy(plan)
                p["pre"] = "none"
                yield p
            if plan.get("chunk"):
                p = copy.deepcopy(plan)
                p["chunk"] = None
                yield p
            sch = plan.get("schedule") or {}
            picks = sch.get("picks", [])
            if picks:
                order = sorted(set(picks))
                for perm in (order, order[::-1]):
                    newp = []
                    for a in perm:
                        newp += [a] * picks.count(a)
                    if newp != picks:
                        p = copy.deepcopy(plan)
                        p["schedule"] = {"picks": newp, "costs": []}
                        yield p
                sw = [k for k in range(1, len(picks)) if picks[k] != picks[k - 1]]
                for k in sw[:30]:
                    newp = list(picks)
                    newp[k] = newp[k - 1]
                    p = copy.deepcopy(plan)
                    p["schedule"] = {"picks": newp, "costs": sch.get("costs", [])}
                    yield p

    # -- execution -----------------------------------------------------------------------------------
    def execute(self, plan, replay=False):
        self.runs += 1
        if self.runs % 20 == 0:
            gc.collect()
        cwd = os.getcwd()
        try:
            kind = plan["kind"]
            if kind == "history":
                return self.run_history(plan)
            if kind == "codegen":
                return self.run_codegen(plan)
            if kind == "roundtrip":
                return self.run_roundtrip(plan)
            if kind == "crash":
                return self.run_crash(plan)
            if kind == "race":
                return self.run_race(plan, replay)
            if kind == "trunc":
                return self.run_trunc(plan)
            raise ValueError(kind)
        finally:
            core.set_clock(None)
            os.chdir(cwd)

    def _result(self, plan, log, clock, counts, distinct, viol, steps=0):
        res = {"property": plan.get("property"), "verdict": "ok", "plan": plan, "counts": counts,
               "digest": log.digest(), "sim_time_s": abs(clock.elapsed_s()), "steps": steps, "distinct": distinct}
        if viol is not None:
            res["verdict"] = "violation"
            res["kind"], res["site"], res["shape"], res["detail"] = viol
            res["log_tail"] = log.tail(60)
        return res

    # ---- C20: histories ------------------------------------------------------------------------------
    def run_history(self, plan):
        sandbox = util.new_sandbox()
        clock = core.SimClock()
        core.set_clock(clock)
        log = core.EventLog()
        counts = {}

        def bump(k, n=1):
            if n:
                counts[k] = counts.get(k, 0) + n

        clock.fs_skew_us = int(plan.get("fs_skew_s", 0) * 1_000_000)
        world = World(sandbox, clock, plan["model"], plan["vals_seed"], layout=plan.get("layout", 0))
        deferred = []
        optset, mode, label_i = plan["optset"], plan["mode"], 0
        proc = procs.ApiProcess(LABELS[label_i])
        pending = set()  # invalidation causes since the last cache build
        built_in_this_proc = False
        have_cache = False
        states = set()
        viol = None
        fs = fsim.FsSeam(sandbox, None, clock)
        with util.capture_pymoca_log(), fs:
            for opi, op in enumerate(plan["ops"]):
                clock.advance(5000)
                k = op["op"]
                log.add(clock.now_us, 0, "op", "%d %s" % (opi, k))
                if k == "edit":
                    key = op["file"]
                    if key not in world.files:
                        continue
                    if op.get("ws_only"):
                        # nothing but whitespace changes - at a place where whitespace matters
                        old = world.files[key]
                        op = dict(op, vals=dict(old[0], ws=1 - old[0].get("ws", 0)), extra=old[1])
                        bump("probe:whitespace_only_edit")
                    if world.files[key] == (op["vals"], op["extra"]):
                        continue  # not an edit
                    world.files[key] = (op["vals"], op["extra"])
                    world.write(key, world.edit_time_us())
                    pending.add("lib_mtime" if key.startswith("lib") else "source_mtime")
                elif k == "add":
                    if not world.late:
                        continue
                    key, _t = sorted(world.late.items())[0]
                    del world.late[key]
                    world.files[key] = (dict(a=2, b=3, c=4, d=5, e=6, ws=0), False)
                    world.write(key, world.edit_time_us())
                    pending.add("added_file")
                elif k == "options":
                    if op["set"] != optset:
                        optset = op["set"]
                        pending.add("options")
                elif k == "switch_lib":
                    if world.switch_library(op["vals"]):
                        pending.add("lib_folder")
                        bump("probe:library_folder_switched")
                elif k == "version":
                    if op["label"] != label_i:
                        label_i = op["label"]
                        pending.add("version")
                    proc = procs.ApiProcess(LABELS[label_i])
                    built_in_this_proc = False
                elif k == "restart":
                    proc = procs.ApiProcess(LABELS[label_i])
                    built_in_this_proc = False
                    bump("probe:restart")
                elif k == "clock":
                    clock.advance(op["delta_s"] * 1_000_000)
                    bump("fault:clock_backward" if op["delta_s"] < 0 else "clock_forward")
                elif k == "transfer":
                    shape = [mode, sorted(pending), "same_process" if built_in_this_proc else "other_process"]
                    states.add(canon.digest((plan["model"], optset, tuple(sorted(pending)), built_in_this_proc,
                                             have_cache)))
                    got, err = self.call(proc, world, optset, mode)
                    is_cached = got is not None and type(got).__name__ == "CachedModel"
                    log.add(clock.now_us, 0, "transfer", "cached" if is_cached else ("error" if err else "compiled"))
                    if is_cached:
                        bump("probe:cache_hit")
                        if not built_in_this_proc:
                            bump("probe:load_after_restart")
                    elif err is None:
                        if have_cache:
                            for c in (pending or {"unexplained"}):
                                bump("probe:invalidated_by_" + c)
                        pending = set()
                        built_in_this_proc = True
                        have_cache = os.path.exists(world.cache_file)
                    viol = self.judge(world, optset, LABELS[label_i], got, err, shape, "op %d transfer" % opi,
                                      deferred if op.get("defer") else None)
                    if viol:
                        break
            for fin in deferred if viol is None else []:
                bump("probe:model_used_later")
                viol = fin()
                if viol:
                    break
        return self._result(plan, log, clock, counts, {"history_states": sorted(states)}, viol, len(fs.trace))

    # ---- C20, compiled shared libraries: one real child interpreter per simulated process ---------------------------------
    def run_codegen(self, plan):
        import json
        import subprocess
        import sys

        sandbox = util.new_sandbox()
        clock = core.SimClock()
        core.set_clock(clock)
        log = core.EventLog()
        counts = {}
        clock.fs_skew_us = int(plan.get("fs_skew_s", 0) * 1_000_000)
        world = World(sandbox, clock, plan["model"], plan["vals_seed"], layout=plan.get("layout", 0))
        state = {"sandbox": sandbox, "model": plan["model"], "files": world.files, "late": world.late,
                 "optset": plan["optset"], "label_i": 0, "pending": [], "have_cache": False, "clock_us": clock.now_us,
                 "repo": procs.repo_root(), "hold_models": bool(plan.get("hold_models")), "layout": plan.get("layout", 0),
                 "fs_skew_us": int(plan.get("fs_skew_s", 0) * 1_000_000)}
        # segments: a restart / version operation ends the life of a simulated process
        segs, cur = [], []
        for op in plan["ops"]:
            if op["op"] in ("restart", "version"):
                segs.append(cur)
                cur = [op]
            else:
                cur.append(op)
                if op.get("crash_at") is not None:  # the process is killed inside this call: nothing more runs in it
                    segs.append(cur)
                    cur = []
        segs.append(cur)
        viol = None
        states = set()
        opi0 = 0
        child = os.path.join(os.path.dirname(os.path.abspath(__file__)), "_codegen_child.py")
        for seg in segs:
            if not seg:
                continue
            job = dict(state, ops=seg, opi0=opi0)
            # every simulated process has a working directory of its own choosing (a library path stored relative to
            # the builder's directory means something else to the next process)
            job["cwd"] = os.path.join(sandbox, ["cwd_a", "cwd_b", ""][(plan["vals_seed"] + len(segs) + opi0) % 3])
            jf = os.path.join(sandbox, "job.json")
            with fsim.REAL_OPEN(jf, "w") as f:
                json.dump(job, f)
            r = subprocess.run([sys.executable, child, jf], capture_output=True, text=True, timeout=900,
                               env=dict(os.environ, PYTHONHASHSEED=os.environ.get("PYTHONHASHSEED", "0")))
            out = None
            for line in r.stdout.splitlines():
                if line.startswith("SEGMENT-JSON "):
                    out = json.loads(line[len("SEGMENT-JSON "):])
            if out is None:
                if r.returncode < 0 or r.returncode >= 128:
                    viol = ("process_crashed", "api:transfer_model", ["codegen"], "the child interpreter died with status %d" % r.returncode)
                    break
                raise core.HarnessError("codegen child failed: %s" % (r.stderr[-800:],))
            for ev in out["log"]:
                log.add(*ev)
            for k, v in out["counts"].items():
                counts[k] = counts.get(k, 0) + v
            states.update(out["states"])
            state.update(out["state"])
            opi0 += len(seg)
            if out["viol"]:
                v = out["viol"]
                viol = (v[0], v[1], v[2], v[3])
                break
        clock.now_us = state["clock_us"]
        measure = "crash_points_and_schedules" if plan.get("crash") else "history_states"
        distinct = {measure: sorted(states)}
        if plan.get("roundtrip"):
            distinct = {"roundtrips": [canon.digest(("codegen", plan["model"], plan["optset"], plan.get("layout", 0),
                                                     [(o["op"], o.get("set")) for o in plan["ops"]]))]}
        return self._result(plan, log, clock, counts, distinct, viol, 0)

    def codegen_segment(self, job):
        """Executed in the child interpreter: the operations of one simulated process."""
        sandbox = job["sandbox"]
        clock = core.SimClock(job["clock_us"])
        clock.fs_skew_us = job.get("fs_skew_us", 0)
        core.set_clock(clock)
        deferred = []
        log = []
        counts = {}

        def bump(k, n=1):
            if n:
                counts[k] = counts.get(k, 0) + n

        world = World.restore(sandbox, clock, job["model"], job["files"], job["late"], job.get("layout", 0))
        optset, label_i = job["optset"], job["label_i"]
        pending = set(job["pending"])
        have_cache = job["have_cache"]
        built_in_this_proc = False
        loaded_in_this_proc = False
        states = set()
        viol = None
        proc = None
        crashed_in = job.get("crashed_in")
        held = []  # a caller that keeps the models it got (knob hold_models): their shared libraries stay mapped
        fs = fsim.FsSeam(sandbox, None, clock)
        with util.capture_pymoca_log(), fs:
            for k_, op in enumerate(job["ops"]):
                opi = job["opi0"] + k_
                clock.advance(5000)
                k = op["op"]
                log.append([clock.now_us, 0, "op", "%d %s" % (opi, k)])
                if k == "restart":
                    bump("probe:restart")
                elif k == "version":
                    if op["label"] != label_i:
                        label_i = op["label"]
                        pending.add("version")
                elif k == "edit":
                    key = op["file"]
                    if key not in world.files or world.files[key] == (op["vals"], op["extra"]):
                        continue
                    world.files[key] = (op["vals"], op["extra"])
                    world.write(key, world.edit_time_us())
                    pending.add("lib_mtime" if key.startswith("lib") else "source_mtime")
                elif k == "add":
                    if not world.late:
                        continue
                    key, _t = sorted(world.late.items())[0]
                    del world.late[key]
                    world.files[key] = (dict(a=2, b=3, c=4, d=5, e=6, ws=0), False)
                    world.write(key, world.edit_time_us())
                    pending.add("added_file")
                elif k == "options":
                    if op["set"] != optset:
                        optset = op["set"]
                        pending.add("options")
                elif k == "transfer":
                    if proc is None:
                        proc = procs.ApiProcess(LABELS[label_i])
                    shape = ["codegen", sorted(pending), "same_process" if built_in_this_proc else "other_process",
                             "library_loaded_before_in_this_process" if loaded_in_this_proc else "first_load_in_this_process",
                             # (a model kept for later use - knob hold_models, or a deferred observation - keeps its libraries mapped)
                             "models_held" if job.get("hold_models") or deferred else "models_dropped"]
                    states.add(canon.digest((job["model"], optset, tuple(sorted(pending)), built_in_this_proc, loaded_in_this_proc,
                                             have_cache, "codegen")))
                    if crashed_in:
                        shape = ["codegen_after_crash", crashed_in["kind"]] + shape[1:3]
                    if op.get("crash_at") is not None:
                        shape = ["codegen_crash"] + shape[1:]
                        fs.crash_at = (len(fs.trace) + op["crash_at"], 0)
                        try:
                            got, err = self.call(proc, world, optset, "codegen")
                        except core.SimCrash:
                            site = fs.fired[-1]
                            bump("fault:crash_%s" % site[2])
                            log.append([clock.now_us, 0, "crash", "%s %s" % (site[2], fsim.norm_rel(site[3]))])
                            states.add(canon.digest(("crash", job["model"], site[2], fsim.norm_rel(site[3]), tuple(sorted(pending)))))
                            crashed_in = {"kind": site[2], "rel": fsim.norm_rel(site[3])}
                            break
                        finally:
                            fs.crash_at = None
                        bump("probe:crash_point_beyond_call")
                    else:
                        got, err = self.call(proc, world, optset, "codegen")
                    is_cached = got is not None and type(got).__name__ == "CachedModel"
                    log.append([clock.now_us, 0, "transfer", "cached" if is_cached else ("error" if err else "compiled")])
                    if is_cached:
                        bump("probe:codegen_hit")
                    elif err is None:
                        bump("probe:codegen_rebuild" if have_cache else "probe:codegen_build")
                        pending = set()
                        built_in_this_proc = True
                        have_cache = os.path.exists(world.cache_file)
                    viol = self.judge(world, optset, LABELS[label_i], got, err, shape, "op %d transfer (codegen)" % opi,
                                      deferred if op.get("defer") else None)
                    if is_cached:
                        loaded_in_this_proc = True
                    if job.get("hold_models") and got is not None:
                        held.append(got)
                    if viol:
                        break
            # models the caller kept without looking at them are used now, at the end of the process's life
            for fin in deferred if viol is None else []:
                bump("probe:model_used_later")
                viol = fin()
                if viol:
                    break
        return {"viol": list(viol) if viol else None, "log": log, "counts": counts, "states": sorted(states),
                "state": {"files": {k: [v[0], v[1]] for k, v in world.files.items()}, "late": world.late, "optset": optset,
                          "label_i": label_i, "pending": sorted(pending), "have_cache": have_cache, "clock_us": clock.now_us,
                          "crashed_in": crashed_in}}

    # ---- C19: save -> restart -> load ---------------------------------------------------------------------
    def run_roundtrip(self, plan):
        i = plan["index"]
        name = MODELS[i % len(MODELS)]
        optset = (i // len(MODELS)) % len(cp.OPTION_SETS)
        if optset in (8, 9) and (name == "Iter" or (plan.get("prior") is not None and plan["vals_seed"] % 5 < 3)):
            plan = dict(plan, prior=17 - optset)  # the sibling set, which differs in an option the API does not declare
        sandbox = util.new_sandbox()
        clock = core.SimClock()
        core.set_clock(clock)
        log = core.EventLog()
        counts = {}
        world = World(sandbox, clock, name, plan["vals_seed"], layout=plan.get("layout", 0))
        if plan["extra"]:
            k = "model:" + next(iter(world.ent["model"]))
            world.files[k] = (world.files[k][0], True)
            world.write(k)
        for key in sorted(world.late):
            world.files[key] = (dict(a=2, b=3, c=4, d=5, e=6, ws=0), False)
            world.write(key)
        world.late = {}
        viol = None
        shape0 = ["roundtrip", name, optset]
        fs = fsim.FsSeam(sandbox, None, clock)
        prior = plan.get("prior")
        with util.capture_pymoca_log(), fs:
            steps = ["save", "load"] + (["load_again"] if plan["third"] else [])
            if prior is not None and prior != optset:
                steps.insert(0, "prior_save")
            got = None
            for si, step in enumerate(steps):
                clock.advance(5000)
                if plan.get("mutate") and got is not None:
                    self._mutate_model(got)
                    counts["probe:caller_mutated_model"] = counts.get("probe:caller_mutated_model", 0) + 1
                proc = procs.ApiProcess(LABELS[0]) if step != "load_again" else proc  # noqa: F821
                if plan["chdir"] and step == "load":
                    os.chdir(sandbox)
                if step == "prior_save":
                    got, err = self.call(proc, world, prior, "cache")
                    viol = self.judge(world, prior, LABELS[0], got, err, shape0 + [step], "%s of %s" % (step, name))
                    if viol:
                        break
                    continue
                got, err = self.call(proc, world, optset, "cache")
                is_cached = got is not None and type(got).__name__ == "CachedModel"
                log.add(clock.now_us, 0, step, "cached" if is_cached else ("error" if err else "compiled"))
                if is_cached:
                    counts["probe:cache_hit"] = counts.get("probe:cache_hit", 0) + 1
                viol = self.judge(world, optset, LABELS[0], got, err, shape0 + [step], "%s of %s" % (step, name))
                if viol:
                    break
        key = canon.digest((name, optset, plan["extra"], plan["third"], plan["chdir"], prior, bool(plan.get("mutate")),
                            plan.get("layout", 0)))
        return self._result(plan, log, clock, counts, {"roundtrips": [key]}, viol, len(fs.trace))

    @staticmethod
    def _mutate_model(m):
        """What a caller may do to a model it was given: these are its own objects, a later transfer_model must not
        see any of it."""
        def attempt(f):
            try:
                f()
            except Exception:
                pass

        attempt(lambda: m.outputs.pop() if m.outputs else m.outputs.append("verif_out"))
        attempt(lambda: m.delay_states.append("verif_delay_state"))
        for lst in ("string_parameters", "string_constants"):
            for v in list(getattr(m, lst, []) or []):
                attempt(lambda v=v: setattr(v, "value", "verif-mutated"))
        for cat in ("states", "alg_states", "parameters", "constants", "inputs"):
            vs = list(getattr(m, cat, []) or [])
            if vs:
                attempt(lambda v=vs[0]: setattr(v, "nominal", 7.5))
                attempt(lambda v=vs[0]: setattr(v, "min", -123.0))
                attempt(lambda v=vs[-1]: v.aliases.add("verif_alias"))
                attempt(lambda c=cat, vs=vs: getattr(m, c).reverse())
        names = [v.symbol.name() for v in list(getattr(m, "alg_states", []) or []) + list(getattr(m, "states", []) or [])]
        if len(names) >= 2:
            attempt(lambda: m.alias_relation.add(names[0], "-" + names[1]))
        for n in names[:1]:
            attempt(lambda: m.alias_relation.remove(m.alias_relation.canonical_signed(n)[0]))

    # ---- C21: crash points ------------------------------------------------------------------------------------
    def _crash_world(self, sandbox, clock, model, pre, vals_seed):
        world = World(sandbox, clock, model, vals_seed)
        for key in sorted(world.late):
            world.files[key] = (dict(a=2, b=3, c=4, d=5, e=6, ws=0), False)
            world.write(key)
        world.late = {}
        if pre:
            # an older, complete cache file exists; then the source is edited, so the next call re-writes it
            with fsim.FsSeam(sandbox, None, clock):  # (under the seam, so that the file is stamped by the simulated clock)
                procs.ApiProcess(LABELS[0]).transfer_model(world.mdir, model, world.options(0, "cache"))
            clock.advance(10_000_000)
            k = "model:" + next(iter(world.ent["model"]))
            vals = dict(world.files[k][0])
            vals["c"] = vals["c"] % 9 + 1
            world.files[k] = (vals, False)
            world.write(k, world.edit_time_us())
            clock.advance(10_000)
        return world

    def crash_points(self, config):
        """Enumerates (site index, byte count) for the cache write of this model, from a trace
        recorded on the tree under test (so a repaired save_model is enumerated along its own
        operations).  Quick tier: all boundaries + 200 seeded byte offsets."""
        if config in self._crash_points:
            return self._crash_points[config]
        _, model, pre, tier = config.split(":")
        sandbox = util.new_sandbox()
        clock = core.SimClock()
        core.set_clock(clock)
        try:
            world = self._crash_world(sandbox, clock, model, int(pre), 12345)
            fs = fsim.FsSeam(sandbox, None, clock)
            with util.capture_pymoca_log(), fs:
                procs.ApiProcess(LABELS[0]).transfer_model(world.mdir, model, world.options(0, "cache"))
        except Exception as e:
            # the plain, uninterrupted call that is only meant to record the trace fails on the tree under test: there is
            # nothing to enumerate; the single run of this config reports what happened
            self._prep_error[config] = (repr(e)[:300], util.exc_site(e))
            self._crash_points[config] = [[0, 0]]
            return self._crash_points[config]
        finally:
            core.set_clock(None)
        pts = []
        byte_pts = []
        for idx, (kind, rel, n) in enumerate(fs.trace):
            if ".pymoca_cache" not in rel and kind not in ("replace", "rename", "remove"):
                continue  # reads of sources are not part of the cache write
            if kind == "read" or (kind == "open" and (":r" in rel)):
                continue
            pts.append([idx, 0])
            if kind == "write":
                byte_pts += [[idx, b] for b in range(1, n)]
        if tier == "quick" and len(byte_pts) > 200:
            rng = random.Random(99)
            byte_pts = sorted(rng.sample(byte_pts, 200))
        pts += byte_pts
        # one more point: after the very last operation nothing is interrupted (control)
        self._crash_points[config] = pts
        return pts

    def run_crash(self, plan):
        config = plan["config"]
        _, model, pre, tier = config.split(":")
        pts = self.crash_points(config)
        site, nbytes = pts[plan["index"] % len(pts)]
        sandbox = util.new_sandbox()
        clock = core.SimClock()
        core.set_clock(clock)
        log = core.EventLog()
        counts = {}
        if config in self._prep_error:
            err = self._prep_error[config]
            return self._result(plan, log, clock, counts, {}, (
                "exception", err[1], ["crash", "no_fault", "pre_existing" if int(pre) else "fresh"],
                "transfer_model without any fault (%s) raised %s" % (
                    "older cache file, source edited" if int(pre) else "fresh folder", err[0])), 0)
        world = self._crash_world(sandbox, clock, model, int(pre), 12345)
        fs = fsim.FsSeam(sandbox, None, clock)
        fs.crash_at = (site, nbytes)
        crashed = False
        with util.capture_pymoca_log():
            with fs:
                try:
                    procs.ApiProcess(LABELS[0]).transfer_model(world.mdir, model, world.options(0, "cache"))
                except core.SimCrash:
                    crashed = True
            opkind = fs.trace[site][0] if site < len(fs.trace) else "none"
            log.add(clock.now_us, 0, "crash", "%s site=%d bytes=%d fired=%s" % (opkind, site, nbytes, crashed))
            size = os.path.getsize(world.cache_file) if os.path.exists(world.cache_file) else -1
            log.add(clock.now_us, 0, "state", "cache_size=%d" % size)
            counts["fault:crash_at_" + opkind] = 1 if crashed else 0
            if not crashed:
                counts["crash_not_reached"] = 1
            plan = dict(plan, crash=[site, nbytes], crash_op=opkind)
            # a new process after the crash
            clock.advance(2_000_000)
            fs2 = fsim.FsSeam(sandbox, None, clock)
            with fs2:
                got, err = self.call(procs.ApiProcess(LABELS[0]), world, 0, "cache")
            shape = ["crash", opkind + ("_mid" if nbytes else ""), "pre_existing" if int(pre) else "fresh"]
            viol = self.judge(world, 0, LABELS[0], got, err, shape,
                              "transfer_model after a crash at %s (site %d, %d bytes written; cache file size %d)" % (
                                  opkind, site, nbytes, size))
            if viol is None:
                # and the call after that (whatever the recovery wrote must be loadable too)
                clock.advance(2_000_000)
                with fsim.FsSeam(sandbox, None, clock):
                    got, err = self.call(procs.ApiProcess(LABELS[0]), world, 0, "cache")
                viol = self.judge(world, 0, LABELS[0], got, err, shape + ["second_call"], "second transfer_model after the crash")
        key = canon.digest((model, pre, site, nbytes))
        return self._result(plan, log, clock, counts, {"crash_points_and_schedules": [key] if crashed else []},
                            viol, len(fs.trace))

    # ---- C21: derived states: every strict prefix of a complete cache file ------------------------------------------
    def trunc_points(self, config):
        if config in self._crash_points:
            return self._crash_points[config]
        _, model, tier = config.split(":")
        sandbox = util.new_sandbox()
        clock = core.SimClock()
        core.set_clock(clock)
        try:
            world = self._crash_world(sandbox, clock, model, 0, 12345)
            with util.capture_pymoca_log(), fsim.FsSeam(sandbox, None, clock):
                procs.ApiProcess(LABELS[0]).transfer_model(world.mdir, model, world.options(0, "cache"))
            size = os.path.getsize(world.cache_file)
            with fsim.REAL_OPEN(world.cache_file, "rb") as f:
                data = f.read()
        except Exception as e:
            self._prep_error[config] = (repr(e)[:300], util.exc_site(e))
            self._crash_points[config] = [0]
            return self._crash_points[config]
        finally:
            core.set_clock(None)
        pts = list(range(size))
        if tier == "quick" and len(pts) > 150:
            # always: the first bytes, and the places where the unpickler is between two frames (it reports a
            # truncation there with another exception class than inside a frame)
            special = set(range(0, 12)) | {size - 1}
            try:
                import pickletools

                for op, arg, pos in pickletools.genops(data):
                    if op.name == "FRAME":
                        for b in (pos - 1, pos, pos + 1, pos + 9, pos + 9 + arg - 1, pos + 9 + arg, pos + 9 + arg + 1):
                            if 0 <= b < size:
                                special.add(b)
            except Exception:
                pass
            # a prefix that happens to END like a complete pickle (its last byte is the STOP opcode '.', which also occurs
            # inside dotted names, version strings and floats), and prefixes ending in other bytes a loader might look at
            rng = random.Random(77)
            for byte in (0x2E, 0x00, 0x0A, 0x94):
                after = [i + 1 for i, b in enumerate(data) if b == byte and i + 1 < size]
                special.update(rng.sample(after, min(len(after), 25)))
            pts = sorted(special | set(rng.sample(pts, 110)))
        self._crash_points[config] = pts
        return pts

    def run_trunc(self, plan):
        config = plan["config"]
        _, model, tier = config.split(":")
        pts = self.trunc_points(config)
        k = pts[plan["index"] % len(pts)]
        sandbox = util.new_sandbox()
        clock = core.SimClock()
        core.set_clock(clock)
        log = core.EventLog()
        if config in self._prep_error:
            err = self._prep_error[config]
            return self._result(plan, log, clock, {}, {}, (
                "exception", err[1], ["truncated", "no_fault"],
                "transfer_model without any fault (fresh folder) raised %s" % err[0]), 0)
        world = self._crash_world(sandbox, clock, model, 0, 12345)
        two_gen = plan["vals_seed"] % 3 == 0
        with util.capture_pymoca_log(), fsim.FsSeam(sandbox, None, clock):
            procs.ApiProcess(LABELS[0]).transfer_model(world.mdir, model, world.options(0, "cache"))
            if two_gen:
                # the damaged file is the second generation of the cache: built, source edited, built again.  Whatever
                # the first generation left behind must not come back.
                clock.advance(2_000_000)
                key = "model:" + next(iter(world.ent["model"]))
                world.files[key] = (dict(a=9, b=8, c=7, d=6, e=5, ws=0), True)
                world.write(key, world.edit_time_us())
                clock.advance(2_000_000)
                procs.ApiProcess(LABELS[0]).transfer_model(world.mdir, model, world.options(0, "cache"))
            k = min(k, max(0, os.path.getsize(world.cache_file) - 1))
            mt = os.stat(world.cache_file).st_mtime_ns
            with fsim.REAL_OPEN(world.cache_file, "r+b") as f:
                f.truncate(k)
            os.utime(world.cache_file, ns=(mt, mt))
            log.add(clock.now_us, 0, "truncate", str(k))
            clock.advance(2_000_000)
            got, err = self.call(procs.ApiProcess(LABELS[0]), world, 0, "cache")
            shape = ["truncated", "empty" if k == 0 else "prefix"] + (["second_generation"] if two_gen else [])
            viol = self.judge(world, 0, LABELS[0], got, err, shape,
                              "transfer_model with a cache file cut to its first %d bytes" % k)
            if viol is None:
                clock.advance(2_000_000)
                got, err = self.call(procs.ApiProcess(LABELS[0]), world, 0, "cache")
                viol = self.judge(world, 0, LABELS[0], got, err, shape + ["second_call"], "second transfer_model")
        plan = dict(plan, truncate_to=k)
        return self._result(plan, log, clock, {"fault:truncated_file": 1},
                            {"crash_points_and_schedules": [canon.digest(("trunc", model, k, two_gen))]}, viol, 0)

    # ---- C21: reader/writer and writer/writer races -------------------------------------------------------------
    def run_race(self, plan, replay):
        sandbox = util.new_sandbox()
        clock = core.SimClock()
        core.set_clock(clock)
        log = core.EventLog()
        counts = {}
        model = plan["model"]
        world = World(sandbox, clock, model, plan["vals_seed"], layout=plan.get("layout", 0))
        for key in sorted(world.late):
            world.files[key] = (dict(a=2, b=3, c=4, d=5, e=6, ws=0), False)
            world.write(key)
        world.late = {}
        optsets = plan["optsets"]
        with util.capture_pymoca_log():
            if plan["pre"] != "none":
                try:
                    procs.ApiProcess(LABELS[0]).transfer_model(world.mdir, model, world.options(optsets[0], "cache"))
                except Exception:
                    pass  # this (model, option set) does not compile: there simply is no earlier cache file
                clock.advance(10_000_000)
                if plan["pre"] == "stale":
                    k = "model:" + next(iter(world.ent["model"]))
                    vals = dict(world.files[k][0])
                    vals["c"] = vals["c"] % 9 + 1
                    world.files[k] = (vals, False)
                    world.write(k, world.edit_time_us())
                    clock.advance(10_000)
            source = core.ReplaySchedule(plan.get("schedule")) if replay else core.SeedSchedule(
                plan["sched_seed"], plan["cost"][0], plan["cost"][1])
            sched = core.Sched(clock, source, log, step_cap=3000)
            fs = fsim.FsSeam(sandbox, sched, clock)
            fs.chunk = plan.get("chunk")
            outcomes = {}

            def body(idx):
                def run(actor):
                    sched.yield_point("call_start", "")
                    p = procs.ApiProcess(LABELS[0])
                    got, err = self.call(p, world, optsets[idx % 2], "cache")
                    outcomes[idx] = (got, err)
                    log.add(clock.now_us, idx, "outcome", "cached" if type(got).__name__ == "CachedModel" else (
                        "error" if err else "compiled"))
                return run

            for idx in range(plan["n_actors"]):
                sched.spawn(idx, idx, body(idx))
            ref_before = None
            edited = [False]
            if plan.get("editor"):
                # an editor saves one of the model's files while the calls are running.  What the calls return that overlap
                # the edit may be either version; whoever asks afterwards must get the new one.
                ref_before = self.reference(world, optsets[0], LABELS[0])

                def editor(actor):
                    for _ in range(plan.get("edit_after", 0)):
                        sched.yield_point("edit_wait", "")
                    k_ = "model:" + next(iter(world.ent["model"]))
                    vals = dict(plan["edit_vals"])
                    if vals == world.files[k_][0]:
                        vals["c"] = vals["c"] % 9 + 1
                    world.files[k_] = (vals, world.files[k_][1])
                    world.write(k_, world.edit_time_us())
                    edited[0] = True
                    log.add(clock.now_us, plan["n_actors"], "edit", k_)
                    sched.yield_point("edit_done", "")

                sched.spawn(plan["n_actors"], 100, editor)
            with fs:
                sched.run()
            plan = dict(plan, schedule=source.record())
            viol = None
            for idx in sorted(outcomes):
                got, err = outcomes[idx]
                shape = ["race", plan["pre"], "same_options" if optsets[0] == optsets[1] else "different_options"]
                viol = self.judge(world, optsets[idx % 2], LABELS[0], got, err, shape, "concurrent transfer_model of actor %d" % idx)
                if viol and ref_before is not None:
                    # overlapping the edit: the version from before the edit is as good an answer
                    shape = ["edit_race", plan["pre"], "concurrent_call"]
                    older = self._judge(ref_before[0], ref_before[1], got, err, shape, "transfer_model of actor %d overlapping an edit" % idx)
                    viol = None if older is None else (viol[0], viol[1], shape, viol[3] + " (nor does it equal the version before the edit)")
                if viol:
                    break
            if viol is None:
                clock.advance(2_000_000)
                got, err = self.call(procs.ApiProcess(LABELS[0]), world, optsets[0], "cache")
                viol = self.judge(world, optsets[0], LABELS[0], got, err,
                                  ["edit_race" if plan.get("editor") else "race", plan["pre"], "later_call"],
                                  "transfer_model after the concurrent calls" + (" and the edit" if plan.get("editor") else ""))
        sig = sched.sched_sig.hexdigest()[:16]
        counts["probe:interleaved_file_ops"] = 1 if len(set(source.record()["picks"])) > 1 else 0
        if plan.get("editor"):
            counts["probe:edit_during_call"] = 1 if edited[0] and any(k == "edit" for *_x, k, _d in log.tail(400)) else 0
            return self._result(plan, log, clock, counts, {"history_states": ["edit_race:" + sig]}, viol, sched.total_steps)
        return self._result(plan, log, clock, counts, {"crash_points_and_schedules": [sig]}, viol, sched.total_steps)
