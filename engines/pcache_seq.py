"""C01 — the parse cache is transparent over any cache history (DESIGN 3.C01).

One cache folder, a sequence of simulated processes (one alive at a time) calling the real
parse() on the real SQLite file; simulated clock; version label; restart; crash between two SQL
statements; corruption of entries, of the table layout and of the whole file."""
import copy
import gc
import hashlib
import os
import pickle
import random
import sqlite3
from pathlib import Path

from simkit import canon, core, procs, sqlshim, texts, util
from simkit.runner import ddmin_list

LABELS = ["1.0.sim", "1.1.sim", "2.0.sim", "1.1.sim+3.gabc.dirty"]
CLOCK_DELTAS = [1, 3600, 2 * 86400, 31 * 86400, 400 * 86400, -86400, -40 * 86400]
ENTRY_HOW = ["garbage", "prefix", "empty", "gone_class", "null", "last_hit"]
# damaged time stamps of an entry: the ends of SQLite's INTEGER range, zero, negative, a float, a text
LAST_HITS = [2 ** 63 - 1, 2 ** 63 - 2, -(2 ** 63), 0, -1, 1.5e300, "yesterday", None]
LAYOUT_HOW = [("models", "wrong_columns"), ("models", "drop"), ("metadata", "wrong_columns"), ("metadata", "drop"),
              ("metadata", "drop_keys"), ("extra", "extra_table"), ("models", "wrong_types"), ("models", "no_pk"),
              ("models", "extra_column"), ("metadata", "wrong_types")]
FILE_HOW = ["garbage", "trunc0", "trunc100", "truncmid", "flip_header", "flip_page", "delete", "zero_fill", "index_swap"]
GC_LAT = [0, 0, 1000, 100_000, 10_000_000, -1]


def txt_hash(t):
    return hashlib.sha256(t.encode("utf-8")).hexdigest()


class Engine:
    name = "pcache_seq"

    def __init__(self):
        self.refs = {}
        self.runs = 0

    def configs(self, tier, prop):
        if tier == "quick":
            return [("nofault", 1000), ("faults", 3500)]
        return [("nofault", 60_000), ("faults", 240_000)]

    def chunk_size(self, config, tier):
        return 100

    def distinct_measure(self, prop):
        return "state_op_pairs"

    def setup_worker(self):
        procs.import_pymoca(LABELS[0])
        import pymoca.parser  # noqa: F401

        core.install_clock_seam()
        sqlshim.install()
        util.silence_antlr()

    def preflight(self):
        d = util.new_sandbox()
        ok, detail = sqlshim.selftest(d)
        if not ok:
            return {"error": "busy-handler self-test failed: %r" % (detail,)}
        return {"busy_handler_selftest": detail}

    # -- plans -------------------------------------------------------------------------------------
    def gen_plan(self, rng, config, tier, prop):
        n_valid = rng.randint(3, 5)
        n_broken = rng.randint(1, 2)
        n_ws = rng.randint(0, 2)
        n_pool = n_valid + n_broken + n_ws
        faults = config == "faults"
        # swarm: enabled op kinds
        kinds = {"parse": 10, "restart": 2}
        for k, w in (("version", 2), ("clock", 3)):
            if rng.random() < 0.7:
                kinds[k] = w
        if faults:
            for k, w in (("corrupt_entry", 2), ("corrupt_layout", 1.5), ("corrupt_file", 1.5), ("crash", 1.5)):
                if rng.random() < 0.6:
                    kinds[k] = w
        names = list(kinds)
        weights = [kinds[k] for k in names]
        ops = []
        for _ in range(rng.randint(4, 30)):
            k = rng.choices(names, weights)[0]
            if k == "parse" or k == "crash":
                op = {"op": "parse", "text": rng.randrange(n_pool) if rng.random() < 0.7 else rng.randrange(min(2, n_pool)),
                      "exp_days": rng.choice([30, 30, 30, 1, 0]), "always_update": rng.random() < 0.25,
                      "default_folder": rng.random() < 0.2, "crash_at": rng.randint(1, 30) if k == "crash" else None}
            elif k == "restart":
                op = {"op": "restart"}
            elif k == "version":
                op = {"op": "version", "label": rng.choice([0, 1, 1, 2, 3])}
            elif k == "clock":
                op = {"op": "clock", "delta_s": rng.choice(CLOCK_DELTAS)}
            elif k == "corrupt_entry":
                op = {"op": "corrupt_entry", "row": rng.randrange(6), "how": rng.choice(ENTRY_HOW), "frac": rng.random()}
            elif k == "corrupt_layout":
                t, h = rng.choice(LAYOUT_HOW)
                op = {"op": "corrupt_layout", "table": t, "how": h}
            else:
                op = {"op": "corrupt_file", "how": rng.choice(FILE_HOW), "frac": rng.random()}
            ops.append(op)
        # Known finding (index damaged after the process verified the file): half of the runs stay clear of it - the
        # damage is followed by a process restart - so that the space beyond it keeps being explored.
        avoid = rng.random() < 0.5
        if avoid:
            out = []
            for op in ops:
                out.append(op)
                if op["op"] == "corrupt_file" and op["how"] == "index_swap":
                    out.append({"op": "restart"})
            ops = out
        return {"pool_seed": rng.randrange(1 << 30), "n_valid": n_valid, "n_broken": n_broken, "n_ws": n_ws,
                "ops": ops, "gc_latency_us": rng.choice(GC_LAT), "avoid": avoid}

    def shrink_candidates(self, plan):
        for cand in ddmin_list(plan["ops"]):
            p = copy.deepcopy(plan)
            p["ops"] = copy.deepcopy(cand)
            yield p
        for i, op in enumerate(plan["ops"]):
            if op["op"] == "parse":
                for key, dflt in (("crash_at", None), ("text", 0), ("exp_days", 30), ("always_update", False),
                                  ("default_folder", False)):
                    if op[key] != dflt:
                        p = copy.deepcopy(plan)
                        p["ops"][i][key] = dflt
                        yield p
            elif op["op"] == "clock" and op["delta_s"] != 1:
                for d in (1, 2 * 86400):
                    if d != op["delta_s"]:
                        p = copy.deepcopy(plan)
                        p["ops"][i]["delta_s"] = d
                        yield p
            elif op["op"] == "version" and op["label"] != 1:
                p = copy.deepcopy(plan)
                p["ops"][i]["label"] = 1
                yield p
            elif op["op"] == "corrupt_entry" and op["row"] != 0:
                p = copy.deepcopy(plan)
                p["ops"][i]["row"] = 0
                yield p
        if plan["gc_latency_us"] != 0:
            p = copy.deepcopy(plan)
            p["gc_latency_us"] = 0
            yield p

    # -- reference ---------------------------------------------------------------------------------
    def reference(self, text, label):
        key = (text, label)
        if key not in self.refs:
            if len(self.refs) > 4000:
                self.refs.clear()
            self.refs[key] = canon.tree_digest(procs.SimProcess(label).reference(text))
        return self.refs[key]

    # -- execution ---------------------------------------------------------------------------------
    def execute(self, plan, replay=False):
        self.runs += 1
        if self.runs % 10 == 0:
            gc.collect()
        gc.disable()
        old_xdg = os.environ.get("XDG_CACHE_HOME")
        try:
            return self._execute(plan)
        finally:
            core.set_clock(None)
            gc.enable()
            if old_xdg is None:
                os.environ.pop("XDG_CACHE_HOME", None)
            else:
                os.environ["XDG_CACHE_HOME"] = old_xdg

    def _db_state(self, dbpath, pool_hashes=None, label=None, now_us=0):
        try:
            return self._db_state_inner(dbpath)
        except Exception:  # e.g. UnicodeDecodeError on a damaged schema page
            return "corrupt", None

    def _db_state_inner(self, dbpath):
        """(file class, rows dict {(hash, version): (last_hit, blob)}) read by the harness (never blocks)."""
        if not os.path.exists(dbpath):
            return "absent", None
        try:
            c = sqlshim.REAL_CONNECT("file:%s?mode=ro" % dbpath, 0, uri=True)
        except sqlite3.Error:
            return "corrupt", None
        try:
            try:
                cols = [r[1] for r in c.execute("PRAGMA table_info('models')").fetchall()]
                mcols = [r[1] for r in c.execute("PRAGMA table_info('metadata')").fetchall()]
            except sqlite3.OperationalError as e:
                return ("locked" if "locked" in str(e) else "corrupt"), None
            except sqlite3.DatabaseError:
                return "corrupt", None
            if cols != ["txt_hash", "pymoca_version", "data", "last_hit"] or mcols != ["key", "value"]:
                rows = None
                if all(x in cols for x in ("txt_hash", "pymoca_version", "data")):
                    try:
                        rows = {(r[0], r[1]): (None, r[2]) for r in
                                c.execute("SELECT txt_hash, pymoca_version, data FROM models").fetchall()}
                    except sqlite3.Error:
                        rows = None
                return ("empty_file" if not cols and not mcols else "wrong_layout"), rows
            try:
                rows = {(r[0], r[1]): (r[3], r[2]) for r in
                        c.execute("SELECT txt_hash, pymoca_version, data, last_hit FROM models").fetchall()}
            except sqlite3.OperationalError as e:
                return ("locked" if "locked" in str(e) else "corrupt"), None
            except sqlite3.DatabaseError:
                return "corrupt", None
            return "valid", rows
        finally:
            c.close()

    def _execute(self, plan):
        sandbox = util.new_sandbox()
        xdg = Path(sandbox) / "xdg"
        folder = xdg / "pymoca"
        os.environ["XDG_CACHE_HOME"] = str(xdg)
        import pymoca.parser as _pp

        dbpath = str(folder / _pp.DEFAULT_MODEL_CACHE_DB)
        clock = core.SimClock()
        core.set_clock(clock)
        log = core.EventLog(keep=True)
        prng = random.Random(plan["pool_seed"])
        pool = texts.make_pool(prng, plan["n_valid"], plan["n_broken"], plan["n_ws"])
        for i, p_ in enumerate(pool):
            if not p_.get("deep"):
                continue
            try:
                self.reference(p_["text"], LABELS[0])
            except RecursionError:
                # too deep even for an uncached parse under this interpreter's limits: not a usable pool text
                pool[i] = {"text": texts.make_valid(prng, i), "broken": False, "base": None}
        pool_texts = [p["text"] for p in pool]
        hashes = [txt_hash(t) for t in pool_texts]
        hash_to_idx = {h: i for i, h in enumerate(hashes)}
        counts = {}

        def bump(k, n=1):
            counts[k] = counts.get(k, 0) + n

        res = {"property": plan.get("property", "C01"), "verdict": "ok", "distinct": {}}
        state_ops = set()
        trigrams = set()
        kinds_seq = []
        label_i = 0
        label = LABELS[label_i]
        sched = core.Sched(clock, core.FixedSchedule(), log, step_cap=20000)
        shim = sqlshim.SqlShim(sched, sandbox, plan["gc_latency_us"])
        proc = [procs.SimProcess(label)]
        proc_calls = [0]
        last_corruption = ["none"]
        viol = None

        index_swapped = [False]

        def restart(new_label=None):
            index_swapped[0] = False
            shim.process_exit(0)
            nonlocal label, label_i
            if new_label is not None:
                label_i = new_label
                label = LABELS[label_i]
            proc[0] = procs.SimProcess(label)
            proc_calls[0] = 0

        with util.capture_pymoca_log() as cap, shim:
            for opi, op in enumerate(plan["ops"]):
                kind = op["op"]
                kinds_seq.append(kind if not (kind == "parse" and op.get("crash_at")) else "crash")
                if len(kinds_seq) >= 3:
                    trigrams.add("/".join(kinds_seq[-3:]))
                clock.advance(1000)
                sched._fire_due()
                log.add(clock.now_us, 0, "op", "%d %s" % (opi, kind))
                if kind == "restart":
                    restart()
                elif kind == "version":
                    restart(op["label"])
                    bump("probe:version_change")
                elif kind == "clock":
                    clock.advance(op["delta_s"] * 1_000_000)
                    if op["delta_s"] < 0:
                        bump("fault:clock_backward")
                    else:
                        bump("fault:clock_forward" if op["delta_s"] >= 86400 else "clock_small")
                    sched._fire_due()
                elif kind == "corrupt_entry":
                    done = self._corrupt_entry(dbpath, op)
                    bump("fault:corrupt_entry_" + op["how"] if done else "skipped:corrupt_entry")
                    if done:
                        last_corruption[0] = "entry_" + op["how"]
                    log.add(clock.now_us, 0, "corrupt_entry", "%s %s" % (op["how"], done))
                elif kind == "corrupt_layout":
                    done = self._corrupt_layout(dbpath, op)
                    bump("fault:corrupt_layout_%s_%s" % (op["table"], op["how"]) if done else "skipped:corrupt_layout")
                    if done:
                        last_corruption[0] = "layout_%s_%s" % (op["table"], op["how"])
                    log.add(clock.now_us, 0, "corrupt_layout", "%s %s %s" % (op["table"], op["how"], done))
                elif kind == "corrupt_file":
                    done = self._corrupt_file(dbpath, op)
                    bump("fault:corrupt_file_" + op["how"] if done else "skipped:corrupt_file")
                    if done:
                        last_corruption[0] = "file_" + op["how"]
                        # index damaged while the live process has already verified the file (see known_findings.json)
                        if op["how"] == "index_swap":
                            index_swapped[0] = proc_calls[0] > 0
                        elif op["how"] in ("garbage", "trunc0", "zero_fill", "delete"):
                            index_swapped[0] = False  # the file was replaced as a whole
                        # (byte flips and partial truncations may leave the damaged index page in effect)
                    log.add(clock.now_us, 0, "corrupt_file", "%s %s" % (op["how"], done))
                elif kind == "parse":
                    ti = op["text"] % len(pool_texts)
                    text = pool_texts[ti]
                    ref = self.reference(text, label)
                    fclass, rows_before = self._db_state(dbpath, hashes, label, clock.now_us)
                    initialised = proc_calls[0] > 0
                    present = 0
                    stale = 0
                    if rows_before:
                        for (h, v), (lh, blob) in rows_before.items():
                            if v == label and h in hash_to_idx:
                                present |= 1 << hash_to_idx[h]
                                if isinstance(lh, int) and lh < clock.now_us - 86400 * 1_000_000:
                                    stale |= 1 << hash_to_idx[h]
                    akey = "%s|%d|%d|%d|%d|%s|%s%s" % (fclass, initialised, label_i, present, stale,
                                                        "crash" if op["crash_at"] else "parse",
                                                        "B" if ref is None else "V", "d" if op["default_folder"] else "")
                    state_ops.add(canon.digest(akey))
                    shape = [fclass, "initialised" if initialised else "first_use", last_corruption[0]]
                    n_msgs = len(cap.msgs)
                    sched.crash = (0, op["crash_at"]) if op["crash_at"] else None
                    kw = {"cache_expiration_days": op["exp_days"], "always_update_last_hit": op["always_update"]}
                    if not op["default_folder"]:
                        kw["model_cache_folder"] = folder
                    outcome = None

                    def call(actor):
                        # a caller reads the text from a file every time: a new string object per call, released after it
                        return proc[0].parse((text + " ")[:-1], **kw)

                    try:
                        tree = sched.run_inline(call)
                        d = canon.tree_digest(tree)
                        tree = None
                        if d != ref:
                            if d is None or ref is None:
                                outcome = ("none_mismatch", "parser:parse", "got %s, uncached parse gives %s" % (
                                    "None" if d is None else "a tree", "None" if ref is None else "a tree"))
                            else:
                                outcome = ("wrong_result", "parser:parse", "tree differs from uncached parse under label %s" % label)
                                others = [j for j, t2 in enumerate(pool_texts) for lab in LABELS
                                          if (j, lab) != (ti, label) and self.reference(t2, lab) == d]
                                if index_swapped[0] and initialised and others:
                                    shape = ["index_swapped_after_the_process_verified_the_file"]
                                    outcome = (outcome[0], outcome[1], outcome[2] + "; it is the stored tree of text %d: the "
                                               "primary-key index was damaged (row numbers of two entries exchanged) after "
                                               "this process ran its integrity check" % others[0])
                    except core.SimCrash:
                        bump("fault:crash")
                        actor = sched.actors[0]
                        shim.actor_died(actor)
                        log.add(clock.now_us, 0, "crashed", "")
                        restart()
                        outcome = "crashed"
                    except core.HarnessAbort:
                        raise core.HarnessError(sched.aborted)
                    except Exception as e:
                        outcome = ("exception", util.exc_site(e), repr(e)[:300])
                    sched.crash = None
                    if outcome != "crashed":
                        proc_calls[0] += 1
                    log.add(clock.now_us, 0, "outcome", "ok" if outcome is None else str(outcome[0] if outcome != "crashed" else outcome))
                    msgs = [m for _, m in cap.msgs[n_msgs:]]
                    hit = any("found in cache" in m for m in msgs)
                    miss = any("not in cache" in m for m in msgs)
                    bump("probe:hit", hit)
                    bump("probe:miss", miss)
                    bump("probe:hit_after_restart", hit and not initialised)
                    bump("probe:unpickle_fallback", any("failed to unpickle" in m for m in msgs))
                    bump("probe:models_recreated", any("cache table layout didn't match" in m for m in msgs))
                    bump("probe:metadata_recreated", any("Metadata table layout" in m for m in msgs))
                    bump("probe:corrupt_file_recreated", any("corrupt, recreating" in m for m in msgs))
                    if any("corrupt, recreating" in m for m in msgs):
                        index_swapped[0] = False
                    bump("probe:dirty_bypass", any("Bypassing cache" in m for m in msgs))
                    bump("probe:busy_wait_on_leaked_connection", shim.stats["busy_handler"] > 0)
                    if miss and rows_before and any(h == hashes[ti] and v != label for (h, v) in rows_before):
                        bump("probe:same_text_other_version_miss")
                    if isinstance(outcome, tuple):
                        viol = (outcome[0], outcome[1], shape, "op %d parse(text %d): %s" % (opi, ti, outcome[2]))
                        break
                    # (4) what the database now holds
                    fclass2, rows_after = self._db_state(dbpath, hashes, label, clock.now_us)
                    if rows_before is not None and rows_after is not None:
                        if len(rows_after) < len(rows_before) and not initialised:
                            bump("probe:rows_pruned")
                        k = (hashes[ti], label)
                        if k in rows_before and k in rows_after and rows_before[k][0] != rows_after[k][0]:
                            bump("probe:last_hit_refreshed")
                    if rows_after:
                        for (h, v), (lh, blob) in sorted(rows_after.items(), key=lambda kv: repr(kv[0])):
                            i = hash_to_idx.get(h)
                            if i is None or v not in LABELS:
                                continue
                            r = self.reference(pool_texts[i], v)
                            if r is None:
                                viol = ("stored_failed_parse", "parser:parse", shape,
                                        "op %d: a row keyed by the hash of broken text %d (version %s) is in the cache" % (opi, i, v))
                                break
                            try:
                                obj = pickle.loads(blob)
                            except Exception:
                                continue
                            if canon.tree_digest(obj) != r:
                                viol = ("poisoned_entry", "parser:parse", shape,
                                        "op %d: the stored entry for text %d / version %s unpickles to a tree that differs "
                                        "from an uncached parse" % (opi, i, v))
                                break
                        if viol:
                            break
            shim.process_exit(0)
        bump("probe:leaked_connection", shim.stats["leaked"])
        res["distinct"]["state_op_pairs"] = sorted(state_ops)
        res["distinct"]["op_trigrams"] = sorted(canon.digest(t) for t in trigrams)
        res["plan"] = plan
        res["counts"] = counts
        res["digest"] = log.digest()
        res["sim_time_s"] = abs(clock.elapsed_s())
        res["steps"] = sched.total_steps
        if viol is not None:
            res["verdict"] = "violation"
            res["kind"], res["site"], res["shape"], res["detail"] = viol
            res["log_tail"] = log.tail(60)
        return res

    # -- corruption operations (harness side, real sqlite3 / real files) ---------------------------
    def _corrupt_entry(self, dbpath, op):
        if not os.path.exists(dbpath):
            return False
        try:
            c = sqlshim.REAL_CONNECT(dbpath, 0)
            try:
                rows = c.execute("SELECT txt_hash, pymoca_version, data FROM models ORDER BY txt_hash, pymoca_version").fetchall()
                if not rows:
                    return False
                h, v, blob = rows[op["row"] % len(rows)]
                how = op["how"]
                if how == "last_hit":
                    val = LAST_HITS[int(op.get("frac", 0.5) * len(LAST_HITS)) % len(LAST_HITS)]
                    c.execute("UPDATE models SET last_hit=? WHERE txt_hash=? AND pymoca_version=?", (val, h, v))
                    c.commit()
                    return True
                if how == "garbage":
                    new = b"\x80\x05verif-garbage\xff\x00\x01"
                elif how == "prefix":
                    if not isinstance(blob, bytes) or len(blob) < 2:
                        return False
                    new = blob[: max(1, int(len(blob) * op.get("frac", 0.5))) % len(blob)]
                elif how == "empty":
                    new = b""
                elif how == "gone_class":
                    new = b"cpymoca.ast\nVerifClassThatNoLongerExists\n)\x81."
                else:
                    new = None
                if new is not None:
                    try:
                        pickle.loads(new)
                        return False  # still unpickles: not in the property
                    except Exception:
                        pass
                c.execute("UPDATE models SET data=? WHERE txt_hash=? AND pymoca_version=?", (new, h, v))
                c.commit()
                return True
            finally:
                c.close()
        except Exception:  # incl. UnicodeDecodeError when a BLOB sits in a TEXT column of a foreign layout
            return False

    def _corrupt_layout(self, dbpath, op):
        if not os.path.exists(dbpath):
            return False
        try:
            c = sqlshim.REAL_CONNECT(dbpath, 0)
            try:
                t, how = op["table"], op["how"]
                if how == "wrong_columns" and t == "models":
                    c.execute("DROP TABLE IF EXISTS models")
                    c.execute("CREATE TABLE models (txt_hash TEXT, data BLOB, last_hit INTEGER)")
                elif how == "wrong_columns":
                    c.execute("DROP TABLE IF EXISTS metadata")
                    c.execute("CREATE TABLE metadata (key TEXT, val TEXT, extra TEXT)")
                elif how == "wrong_types" and t == "models":
                    # the right column names and key, other declared types (SQLite then stores other value types)
                    c.execute("DROP TABLE IF EXISTS models")
                    c.execute("CREATE TABLE models (txt_hash TEXT, pymoca_version TEXT, data TEXT, last_hit TEXT, "
                              "PRIMARY KEY (txt_hash, pymoca_version))")
                elif how == "wrong_types":
                    c.execute("DROP TABLE IF EXISTS metadata")
                    c.execute("CREATE TABLE metadata (key TEXT, value BLOB, PRIMARY KEY (key))")
                elif how == "no_pk":
                    c.execute("DROP TABLE IF EXISTS models")
                    c.execute("CREATE TABLE models (txt_hash TEXT, pymoca_version TEXT, data BLOB, last_hit TIMESTAMP INTEGER)")
                elif how == "extra_column":
                    c.execute("DROP TABLE IF EXISTS models")
                    c.execute("CREATE TABLE models (txt_hash TEXT, pymoca_version TEXT, data BLOB, last_hit TIMESTAMP INTEGER, "
                              "note TEXT, PRIMARY KEY (txt_hash, pymoca_version))")
                elif how == "drop":
                    c.execute("DROP TABLE IF EXISTS %s" % t)
                elif how == "drop_keys":
                    c.execute("DELETE FROM metadata")
                elif how == "extra_table":
                    c.execute("CREATE TABLE IF NOT EXISTS verif_extra (x)")
                c.commit()
                return True
            finally:
                c.close()
        except (sqlite3.Error, UnicodeDecodeError):  # the harness's own access fails on an already damaged file: skipped
            return False

    def _corrupt_file(self, dbpath, op):
        how = op["how"]
        if not os.path.exists(dbpath):
            if how == "zero_fill" and os.path.isdir(os.path.dirname(dbpath)):
                with open(dbpath, "wb"):
                    pass
                return True
            return False
        size = os.path.getsize(dbpath)
        if how == "garbage":
            with open(dbpath, "wb") as f:
                f.write(b"this is not a database, " * 40)
        elif how == "trunc0" or how == "zero_fill":
            with open(dbpath, "wb"):
                pass
        elif how == "trunc100":
            with open(dbpath, "r+b") as f:
                f.truncate(min(100, size))
        elif how == "truncmid":
            if size < 4096:
                return False
            with open(dbpath, "r+b") as f:
                f.truncate(4096 + (size - 4096) // 2 + 17)
        elif how == "flip_header":
            if size < 100:
                return False
            with open(dbpath, "r+b") as f:
                f.seek(int(op.get("frac", 0.5) * 99))
                b = f.read(1)
                f.seek(-1, 1)
                f.write(bytes([b[0] ^ 0xFF]))
        elif how == "flip_page":
            if size < 200:
                return False
            _, before = self._db_state(dbpath, None, None, 0)
            with open(dbpath, "r+b") as f:
                pos = 100 + int(op.get("frac", 0.5) * (size - 101))
                f.seek(pos)
                b = f.read(16)
                f.seek(pos)
                f.write(bytes(x ^ 0xFF for x in b))
            # a flip that leaves a blob changed but still unpicklable-to-something is outside the
            # property ("entries that no longer unpickle"): undo it
            _, after = self._db_state(dbpath, None, None, 0)
            bad = False
            for k, (lh, blob) in (after or {}).items():
                old = (before or {}).get(k)
                if old is None or old[1] != blob:
                    try:
                        pickle.loads(blob)
                        bad = True
                    except Exception:
                        pass
            if bad:
                with open(dbpath, "r+b") as f:
                    f.seek(pos)
                    f.write(b)
                return False
        elif how == "index_swap":
            # Page-level damage that leaves every page, cell and row well-formed: in the leaf page of the primary-key
            # index of `models` the row numbers of two entries are exchanged (two bytes of the file), so the index no
            # longer agrees with the table.  Only `PRAGMA integrity_check` notices ("row N missing from index").
            try:
                c = sqlshim.REAL_CONNECT(dbpath)
                try:
                    ps = c.execute("PRAGMA page_size").fetchone()[0]
                    root = c.execute("SELECT rootpage FROM sqlite_master WHERE name='sqlite_autoindex_models_1'").fetchone()
                    rows = c.execute("SELECT rowid, txt_hash, pymoca_version FROM models ORDER BY rowid").fetchall()
                finally:
                    c.close()
                rows = [r for r in rows if 2 <= r[0] <= 127 and isinstance(r[1], str) and isinstance(r[2], str)]
                if root is None or len(rows) < 2:
                    return False
                i = int(op.get("frac", 0.5) * len(rows)) % len(rows)
                a, b = rows[i], rows[(i + 1) % len(rows)]
                with open(dbpath, "rb") as f:
                    raw = bytearray(f.read())
                start = (root[0] - 1) * ps
                page = bytes(raw[start:start + ps])
                if not page or page[0] != 0x0A:
                    return False
                pos = []
                for rid, h, v in (a, b):
                    key = h.encode() + v.encode()
                    k = page.find(key)
                    if k < 0 or page.find(key, k + 1) >= 0 or raw[start + k + len(key)] != rid:
                        return False
                    pos.append(start + k + len(key))
                raw[pos[0]], raw[pos[1]] = raw[pos[1]], raw[pos[0]]
                with open(dbpath, "wb") as f:
                    f.write(bytes(raw))
            except Exception:
                return False
        elif how == "delete":
            sqlshim.REAL_REMOVE(dbpath)
        return True
