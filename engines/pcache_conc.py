"""C02 — concurrent parse() calls sharing one cache folder (DESIGN 3.C02).

2-4 actors (real threads, one baton) in 1-3 simulated processes call the real parse() on one
real SQLite file through the proxy connection; SQLite arbitrates the locks, the simulated
clock drives its busy handler.  Fault configs: base / stall / crash."""
import copy
import gc
import os
import random
import sqlite3
import sys
from pathlib import Path

from simkit import canon, core, procs, sqlshim, texts, util
from simkit.runner import ddmin_list

LABEL = "2.0.sim"
LABELS = ["2.0.sim", "2.1.sim"]  # two pymoca versions may share one cache folder
INITS = ["absent", "empty", "fresh", "stale", "wrong_layout"]
GC_LAT = [0, 1000, 100_000, 10_000_000, -1]
COSTS = [(50, 2000), (10, 100), (500, 5000)]


class Engine:
    name = "pcache_conc"

    def __init__(self):
        self.refs = {}
        self.runs = 0

    # -- runner interface ------------------------------------------------------------------
    def configs(self, tier, prop):
        if tier == "quick":
            return [("base", 2600), ("crash", 1000), ("stall", 400), ("crowd", 120), ("fine", 300)]
        return [("base", 100_000), ("stall", 40_000), ("crash", 60_000), ("crowd", 6_000), ("fine", 40_000)]

    def chunk_size(self, config, tier):
        return 50

    def distinct_measure(self, prop):
        return "schedules_with_conflict"

    def setup_worker(self):
        procs.import_pymoca(LABEL)
        import pymoca.parser  # noqa: F401  (antlr import, shared copy-on-write)

        core.install_clock_seam()
        core.install_lock_seam(procs.repo_root())
        sqlshim.install()
        util.silence_antlr()

    def preflight(self):
        d = util.new_sandbox()
        ok, detail = sqlshim.selftest(d)
        if not ok:
            return {"error": "busy-handler self-test failed: %r" % (detail,)}
        return {"busy_handler_selftest": detail, "sqlite": sqlite3.sqlite_version}

    # -- plans -----------------------------------------------------------------------------------
    def gen_plan(self, rng, config, tier, prop):
        n_act = rng.choice([2, 2, 3, 3, 4])
        n_proc = rng.randint(1, min(3, n_act))
        if config == "crowd":
            # the deterministic counterpart of "16 processes released simultaneously"
            n_act = rng.randint(6, 16)
            n_proc = rng.choice([n_act, n_act, max(2, n_act // 2)])
        proc_of = [rng.randrange(n_proc) for _ in range(n_act)]
        # renumber processes in order of first appearance
        seen = {}
        proc_of = [seen.setdefault(p, len(seen)) for p in proc_of]
        same_text = rng.random() < 0.45
        actors = []
        for a in range(n_act):
            calls = []
            for _ in range(rng.choice([1, 1, 2]) if config != "crowd" else 1):
                t = 0 if same_text else rng.choice([0, 0, 1, 1, 2, 3, 3])
                calls.append({"text": t, "exp_days": rng.choice([30, 30, 1, 0]),
                              "always_update": rng.random() < 0.3})
            actors.append({"proc": proc_of[a], "calls": calls})
        plan = {
            "pool_seed": rng.randrange(1 << 30),
            "init": rng.choice(["absent", "absent", "absent", "empty", "fresh", "stale", "stale", "wrong_layout"]),
            "actors": actors,
            "gc_latency_us": rng.choice(GC_LAT),
            "cost": list(rng.choice(COSTS)),
            "stalls": [],
            "crash": None,
            "sched_seed": rng.randrange(1 << 62),
            "labels": [0] * n_proc if rng.random() < 0.7 else [rng.randrange(2) for _ in range(n_proc)],
            # processes that have used ANOTHER cache database before (their per-process memo is not empty)
            "warm_other": rng.randrange(1 << n_proc) if rng.random() < 0.4 else 0,
        }
        if config in ("base", "fine") and rng.random() < 0.15:
            # motif: a process that is already initialised gets hits (one of them refreshing last_hit) while the first call of
            # another process prunes with expiration 0 and inserts another text - rows vanish and row numbers are reused
            # between the statements of the hit
            plan["init"] = rng.choice(["absent", "absent", "fresh", "stale"])
            t = rng.choice([0, 1])
            plan["actors"] = [
                {"proc": 0, "calls": [{"text": t, "exp_days": 30, "always_update": rng.random() < 0.5},
                                      {"text": t, "exp_days": 30, "always_update": rng.random() < 0.5}]},
                {"proc": 1, "calls": [{"text": rng.choice([1 - t, 3]), "exp_days": 0, "always_update": False}]},
            ] + ([{"proc": 0, "calls": [{"text": t, "exp_days": 30, "always_update": True}]}] if rng.random() < 0.5 else [])
            plan["labels"] = [0, 0]
            plan["warm_other"] = 0
        if config == "stall":
            for _ in range(rng.choice([1, 1, 2])):
                plan["stalls"].append({"actor": rng.randrange(n_act), "at_step": rng.randint(1, 40),
                                       "dur_us": int(10 ** rng.uniform(5, 7))})
        if config == "crash":
            plan["crash"] = {"actor": rng.randrange(n_act), "at_step": rng.randint(1, 45)}
        if config == "fine":
            # line-level pre-emption inside the cache code (not only at the seams): check-then-act sequences between two
            # seam calls (exists() / mkdir / create, the per-process memo) become interleavable; a third of these runs
            # also kill a process at such a point
            plan["fine"] = True
            if rng.random() < 0.33:
                plan["crash"] = {"actor": rng.randrange(n_act), "at_step": rng.randint(1, 220)}
        plan["holders"] = []
        if config == "stall" and rng.random() < 0.5:
            # a process stalled in the middle of its COMMIT: it holds the EXCLUSIVE (or RESERVED) lock for that long.
            # SQLite's commit is one seam call here, so this state is produced by an explicit stand-in actor.
            plan["holders"].append({"at_us": rng.choice([0, 500, 5000, 50_000]), "dur_us": int(10 ** rng.uniform(5.5, 7.1)),
                                    "mode": rng.choice(["EXCLUSIVE", "EXCLUSIVE", "IMMEDIATE"])})
        return plan

    def shrink_candidates(self, plan):
        # fewer actors
        n = len(plan["actors"])
        for i in range(n - 1, -1, -1):
            if n > 1:
                p = copy.deepcopy(plan)
                del p["actors"][i]
                p["stalls"] = [s for s in p["stalls"] if s["actor"] != i]
                for s in p["stalls"]:
                    if s["actor"] > i:
                        s["actor"] -= 1
                if p["crash"]:
                    if p["crash"]["actor"] == i:
                        p["crash"] = None
                    elif p["crash"]["actor"] > i:
                        p["crash"]["actor"] -= 1
                sch = p.get("schedule") or {}
                p["schedule"] = {"picks": [x - (x > i) for x in sch.get("picks", []) if x != i],
                                 "costs": sch.get("costs", [])}
                yield p
        # fewer calls per actor
        for i, a in enumerate(plan["actors"]):
            if len(a["calls"]) > 1:
                for j in range(len(a["calls"])):
                    p = copy.deepcopy(plan)
                    del p["actors"][i]["calls"][j]
                    yield p
        # simpler faults
        if plan["stalls"]:
            for cand in ddmin_list(plan["stalls"]):
                p = copy.deepcopy(plan)
                p["stalls"] = cand
                yield p
        if plan["crash"]:
            p = copy.deepcopy(plan)
            p["crash"] = None
            yield p
        if plan.get("holders"):
            p = copy.deepcopy(plan)
            p["holders"] = []
            yield p
        # one process per actor -> single process
        if len({a["proc"] for a in plan["actors"]}) > 1:
            p = copy.deepcopy(plan)
            for a in p["actors"]:
                a["proc"] = 0
            yield p
        # default arguments
        for i, a in enumerate(plan["actors"]):
            for j, c in enumerate(a["calls"]):
                for key, dflt in (("text", 0), ("exp_days", 30), ("always_update", False)):
                    if c[key] != dflt:
                        p = copy.deepcopy(plan)
                        p["actors"][i]["calls"][j][key] = dflt
                        yield p
        if plan["init"] != "absent":
            p = copy.deepcopy(plan)
            p["init"] = "absent"
            yield p
        if plan["gc_latency_us"] != 0:
            p = copy.deepcopy(plan)
            p["gc_latency_us"] = 0
            yield p
        if plan.get("warm_other"):
            p = copy.deepcopy(plan)
            p["warm_other"] = 0
            yield p
        if plan.get("fine"):
            p = copy.deepcopy(plan)
            p["fine"] = False
            p["schedule"] = {"picks": [], "costs": []}
            yield p
        if any(plan.get("labels") or []):
            p = copy.deepcopy(plan)
            p["labels"] = [0] * len(p["labels"])
            yield p
        # schedule simplification: run actors to completion in index order / fewer context switches
        sch = plan.get("schedule") or {}
        picks = sch.get("picks", [])
        if picks:
            order = sorted(set(picks))
            for perm in (order, order[::-1]):
                newp = []
                for a in perm:
                    newp += [a] * picks.count(a)
                if newp != picks:
                    p = copy.deepcopy(plan)
                    p["schedule"] = {"picks": newp, "costs": []}
                    yield p
            # merge adjacent switches: move a single pick next to its neighbour of the same actor
            sw = [k for k in range(1, len(picks)) if picks[k] != picks[k - 1]]
            for k in sw[:30]:
                newp = list(picks)
                newp[k] = newp[k - 1]
                p = copy.deepcopy(plan)
                p["schedule"] = {"picks": newp, "costs": sch.get("costs", [])}
                yield p
            if any(c != 100 for c in sch.get("costs", [])) and not plan["stalls"]:
                p = copy.deepcopy(plan)
                p["schedule"] = {"picks": picks, "costs": []}
                yield p

    # -- reference -------------------------------------------------------------------------------
    def reference(self, text, label=LABEL):
        key = (text, label)
        if key not in self.refs:
            if len(self.refs) > 2000:
                self.refs.clear()
            rp = procs.SimProcess(label)
            self.refs[key] = canon.tree_digest(rp.reference(text))
        return self.refs[key]

    # -- execution -------------------------------------------------------------------------------
    def execute(self, plan, replay=False):
        self.runs += 1
        if self.runs % 10 == 0:
            gc.collect()
        gc.disable()
        try:
            return self._execute(plan, replay)
        finally:
            core.set_clock(None)
            gc.enable()

    def _execute(self, plan, replay):
        sandbox = util.new_sandbox()
        folder = Path(sandbox) / "cache"
        import pymoca.parser as _pp

        dbpath = folder / _pp.DEFAULT_MODEL_CACHE_DB
        clock = core.SimClock()
        core.set_clock(clock)
        log = core.EventLog(keep=True)
        prng = random.Random(plan["pool_seed"])
        v0, v1 = texts.make_valid(prng, prng.randrange(5)), texts.make_valid(prng, prng.randrange(5))
        # text 3: the first text with other line endings (another text, another tree where a string spans a line break)
        pool = [v0, v1, texts.make_broken(v0, prng.choice(texts.BREAKERS)), texts.text_variant(v0, prng, "crlf")]
        refs = [self.reference(t) for t in pool]
        counts = {}

        def bump(k, n=1):
            counts[k] = counts.get(k, 0) + n

        res = {"property": plan.get("property", "C02"), "verdict": "ok"}
        with util.capture_pymoca_log() as cap:
            # ---- initial folder state, produced by the code under test itself (un-instrumented)
            init = plan["init"]
            try:
                if init == "wrong_layout":
                    folder.mkdir(parents=True)
                    c = sqlshim.REAL_CONNECT(str(dbpath))
                    c.execute("CREATE TABLE models (txt_hash TEXT, data BLOB)")
                    c.execute("CREATE TABLE metadata (key TEXT, val TEXT, extra TEXT)")
                    c.commit()
                    c.close()
                elif init != "absent":
                    sp = procs.SimProcess(LABEL)
                    sp.parse("model VerifSetup Real x; equation x = 1; end VerifSetup;", model_cache_folder=folder)
                    if init in ("fresh", "stale"):
                        sp.parse(pool[0], model_cache_folder=folder)
                        sp.parse(pool[1], model_cache_folder=folder)
                    if init == "stale":
                        clock.advance(2 * 86400 * 1_000_000 + 5)
                    del sp
            except Exception as e:
                return self._finish(plan, res, log, clock, counts, None, cap, viol=(
                    "exception", util.exc_site(e), [init, "setup", plan["config"], ""], "setup parse failed: %r" % (e,)))
            clock.advance(1000)
            n_setup_msgs = len(cap.msgs)

            source = core.ReplaySchedule(plan.get("schedule")) if replay else core.SeedSchedule(
                plan["sched_seed"], plan["cost"][0], plan["cost"][1])
            sched = core.Sched(clock, source, log, step_cap=4000 if len(plan["actors"]) <= 4 else 20000,
                               stalls=plan["stalls"], crash=plan["crash"])
            shim = sqlshim.SqlShim(sched, sandbox, plan["gc_latency_us"])
            n_proc = 1 + max(a["proc"] for a in plan["actors"])
            plabels = [LABELS[(plan.get("labels") or [0] * n_proc)[k % len(plan.get("labels") or [0])] % 2] for k in range(n_proc)]
            sprocs = [procs.SimProcess(plabels[k]) for k in range(n_proc)]
            if len(set(plabels)) > 1:
                bump("probe:mixed_versions")
            for k in range(n_proc):
                if (plan.get("warm_other", 0) >> k) & 1:
                    sprocs[k].parse("model VerifOther Real x; equation x = 2; end VerifOther;",
                                    model_cache_folder=Path(sandbox) / ("other_cache_%d" % (k % 2)))
                    bump("probe:process_used_another_database_before")
            outcomes = []  # (seq, actor, call index, kind, detail, site, last seam)
            last_seam = {}
            orig_yield = sched.yield_point

            def yp(kind, detail=""):
                a = sched.me()
                if a is not None:
                    d = str(detail)
                    parts = d.split(" ")
                    if kind != "line":
                        last_seam[a.idx] = kind if kind != "exec" else " ".join(parts[1:3]).upper()
                return orig_yield(kind, detail)

            sched.yield_point = yp
            live_by_proc = {}

            tracer = self._line_tracer(sched, sprocs, bump) if plan.get("fine") else None

            def body(spec, idx):
                def run(actor):
                    if tracer is not None:
                        sys.settrace(tracer)
                    try:
                        calls(actor)
                    finally:
                        if tracer is not None:
                            sys.settrace(None)

                def calls(actor):
                    for ci, call in enumerate(spec["calls"]):
                        call_id = (idx, ci)
                        sched.yield_point("call_start", "t%d" % call["text"])
                        shim.calls_in_progress[idx] = call_id
                        try:
                            tree = sprocs[spec["proc"]].parse(
                                pool[call["text"]], model_cache_folder=folder,
                                cache_expiration_days=call["exp_days"], always_update_last_hit=call["always_update"])
                            d = canon.tree_digest(tree)
                            want = self.reference(pool[call["text"]], plabels[spec["proc"]])
                            if d == want:
                                outcomes.append((len(outcomes), idx, ci, "ok", "", "", ""))
                            elif d is None or want is None:
                                outcomes.append((len(outcomes), idx, ci, "none_mismatch",
                                                 "got %s expected %s" % ("None" if d is None else "tree",
                                                                         "None" if want is None else "tree"),
                                                 "parser:parse", last_seam.get(idx, "")))
                            else:
                                outcomes.append((len(outcomes), idx, ci, "wrong_result", "tree differs from uncached parse",
                                                 "parser:parse", last_seam.get(idx, "")))
                            tree = None
                            log.add(clock.now_us, idx, "outcome", outcomes[-1][3])
                        except (core.SimCrash, core.HarnessAbort):
                            raise
                        except Exception as e:
                            outcomes.append((len(outcomes), idx, ci, "exception", repr(e)[:300], util.exc_site(e),
                                             last_seam.get(idx, "")))
                            log.add(clock.now_us, idx, "call_raised", type(e).__name__)
                        finally:
                            shim.calls_in_progress[idx] = None
                return run

            for idx, spec in enumerate(plan["actors"]):
                sched.spawn(idx, spec["proc"], body(spec, idx))
                live_by_proc[spec["proc"]] = live_by_proc.get(spec["proc"], 0) + 1

            def holder_body(h, hidx):
                def run(actor):
                    sched.sleep_until(clock.now_us + h["at_us"], "holder_wait", "")
                    if not dbpath.exists():
                        log.add(clock.now_us, hidx, "holder_skipped", "no database yet")
                        return
                    shim.calls_in_progress[hidx] = ("holder", hidx)
                    conn = None
                    try:
                        conn = sqlite3.connect(str(dbpath), isolation_level=None)
                        conn.execute("BEGIN %s" % h["mode"])
                        bump("fault:lock_holder_" + h["mode"].lower())
                        sched.sleep_until(clock.now_us + h["dur_us"], "holder_hold", h["mode"])
                        conn.execute("COMMIT")
                    except sqlite3.Error as e:
                        log.add(clock.now_us, hidx, "holder_error", type(e).__name__)
                    finally:
                        if conn is not None:
                            conn.close()
                        shim.calls_in_progress[hidx] = None
                return run

            for k, h in enumerate(plan.get("holders") or []):
                hidx = len(plan["actors"]) + k
                sched.spawn(hidx, 100 + k, holder_body(h, hidx))
                live_by_proc[100 + k] = 1

            def on_exit(actor):
                if actor.state == "dead":
                    shim.actor_died(actor)
                live_by_proc[actor.proc] -= 1
                if live_by_proc[actor.proc] == 0 and plan["gc_latency_us"] < 0:
                    shim.process_exit(actor.proc)

            sched.on_actor_exit = on_exit
            with shim:
                sched.run()
            plan = dict(plan, schedule=source.record())
            # ---- probes
            msgs = cap.msgs[n_setup_msgs:]
            bump("probe:hit", sum(1 for _, m in msgs if "found in cache" in m))
            bump("probe:miss", sum(1 for _, m in msgs if "not in cache" in m))
            bump("probe:corrupt_recreate", sum(1 for _, m in msgs if "corrupt, recreating" in m))
            bump("probe:layout_recreate", sum(1 for _, m in msgs if "layout didn't match" in m))
            bump("probe:busy_handler_invoked", shim.stats["busy_handler"])
            bump("probe:busy_immediate_deadlock", shim.stats["busy_immediate"])
            bump("probe:busy_timeout_expired", shim.stats["busy_timeout"])
            bump("probe:leaked_connection", shim.stats["leaked"])
            bump("probe:db_remove", shim.stats["remove"])
            bump("fault:stall", sched.fired["stall"])
            bump("fault:crash", sched.fired["crash"])
            bump("init:" + init)
            bump("calls_completed", len(outcomes))
            conflict = shim.stats["busy_handler"] + shim.stats["busy_immediate"] > 0
            sig = sched.sched_sig.hexdigest()[:16]
            res["distinct"] = {"schedules": [sig]}
            if conflict:
                res["distinct"]["schedules_with_conflict"] = [sig]
            res["steps"] = sched.total_steps

            # ---- oracle
            viol = None
            first_call = lambda idx, ci: ci == 0  # noqa: E731
            for seq, idx, ci, kind, detail, site, seam in outcomes:
                if kind != "ok":
                    viol = (kind, site, [init, "first_call" if first_call(idx, ci) else "later_call", plan["config"], seam],
                            "actor %d call %d: %s" % (idx, ci, detail))
                    break
            if viol is None and shim.remove_violations:
                rv = shim.remove_violations[0]
                viol = ("db_removed_in_use", "parser:parse", [init, "", plan["config"], "remove"],
                        "actor %d removed %s while actors %s had it open inside a call" % (rv["by"], rv["path"], rv["users"]))
            if viol is None:
                # after the run: faults have stopped, every simulated process has exited
                shim.close_all()
                clock.advance(1_000_000)
                try:
                    if dbpath.exists():
                        c = sqlshim.REAL_CONNECT(str(dbpath))
                        r = c.execute("PRAGMA integrity_check").fetchone()
                        c.close()
                        if r != ("ok",):
                            viol = ("db_damaged_after", "parser:parse", [init, "", plan["config"], "integrity"],
                                    "integrity_check: %r" % (r,))
                    elif any(k == "ok" for _, _, _, k, _, _, _ in outcomes):
                        viol = ("db_damaged_after", "parser:parse", [init, "", plan["config"], "missing"],
                                "database file does not exist after the run")
                except sqlite3.DatabaseError as e:
                    viol = ("db_damaged_after", "parser:parse", [init, "", plan["config"], "integrity"], repr(e))
            if viol is None:
                fp = procs.SimProcess(LABEL)
                for ti, t in enumerate(pool):
                    try:
                        d = canon.tree_digest(fp.parse(t, model_cache_folder=folder))
                        if d != refs[ti]:
                            viol = ("wrong_result" if d and refs[ti] else "none_mismatch", "parser:parse",
                                    [init, "after_run", plan["config"], ""], "later sequential parse of text %d differs" % ti)
                            break
                    except Exception as e:
                        viol = ("exception", util.exc_site(e), [init, "after_run", plan["config"], ""],
                                "later sequential parse of text %d raised %r" % (ti, e))
                        break
            return self._finish(plan, res, log, clock, counts, sched, cap, viol)

    @staticmethod
    def _line_tracer(sched, sprocs, bump):
        """sys.settrace function for an actor thread: every line event in a module-level function of the parser module
        under test (parse, _parse_cached, _check_database_structure, helpers a change may add ...; not the ANTLR listener
        classes, not _parse itself) is a yield point.  A SimCrash raised here surfaces in the traced frame, as a kill at
        that line would."""
        files = {sp.mod.__dict__.get("__file__") or "" for sp in sprocs}
        files |= {os.path.realpath(f) for f in files}
        skip = {"_parse", "file_to_tree", "<module>"}

        def local(frame, event, arg):
            if event == "line":
                co = frame.f_code
                bump("probe:line_yield")
                sched.yield_point("line", "%s:%d" % (co.co_name, frame.f_lineno - co.co_firstlineno))
            return local

        def tracer(frame, event, arg):
            co = frame.f_code
            if co.co_filename in files and "." not in co.co_qualname and co.co_name not in skip:
                return local
            return None

        return tracer

    def _finish(self, plan, res, log, clock, counts, sched, cap, viol):
        res["plan"] = plan
        res["counts"] = counts
        res["digest"] = log.digest()
        res["sim_time_s"] = clock.elapsed_s()
        res.setdefault("steps", 0)
        res.setdefault("distinct", {})
        if viol is not None:
            res["verdict"] = "violation"
            res["kind"], res["site"], res["shape"], res["detail"] = viol
            res["log_tail"] = log.tail(60)
        return res
