"""Parallel seeded runner: plans -> executions -> verdicts -> minimised replay files ->
known-findings triage -> evidence file.  See DESIGN 2.8 / 2.9."""
import concurrent.futures as cf
import faulthandler
import gc
import hashlib
import json
import multiprocessing
import os
import random
import shutil
import subprocess
import sys
import tempfile
import traceback

from .core import REAL_PERF, derive_seed, HarnessError

VERIF = os.path.dirname(os.path.dirname(os.path.abspath(__file__)))
PY = sys.executable


def out_dir(kind):
    """evidence/ and replays/ live in /verif unless a sensitivity run redirects them (VERIF_OUT)."""
    base = os.environ.get("VERIF_OUT") or VERIF
    return os.path.join(base, kind)


def scratch_top():
    top = os.environ.get("_VERIF_SCRATCH_TOP")
    if not top:
        base = os.environ.get("VERIF_SCRATCH")
        if not base:
            base = "/dev/shm" if os.path.isdir("/dev/shm") and os.access("/dev/shm", os.W_OK) else tempfile.gettempdir()
        top = os.path.join(base, "pymoca-verif-%d" % os.getpid())
        os.environ["_VERIF_SCRATCH_TOP"] = top
    os.makedirs(top, exist_ok=True)
    return top


def scratch_root():
    d = os.path.join(scratch_top(), "w%d" % os.getpid())
    os.makedirs(d, exist_ok=True)
    return d


def cleanup_scratch():
    top = os.environ.get("_VERIF_SCRATCH_TOP")
    if top and os.path.basename(top) == "pymoca-verif-%d" % os.getpid():
        shutil.rmtree(top, ignore_errors=True)


def sig_tuple(res):
    return (res.get("property"), res.get("kind"), res.get("site"), json.dumps(res.get("shape"), default=str))


def sig_dict(key):
    return {"property": key[0], "kind": key[1], "site": key[2], "shape": json.loads(key[3])}


def sig_hash(sig):
    return hashlib.sha256(json.dumps(sig, sort_keys=True, default=str).encode()).hexdigest()[:12]


# ---------------------------------------------------------------------------------------------
# known findings
# ---------------------------------------------------------------------------------------------
def load_findings():
    p = os.path.join(VERIF, "known_findings.json")
    if not os.path.exists(p):
        return []
    with open(p) as f:
        return json.load(f).get("findings", [])


_findings_cache = []


def _findings():
    if not _findings_cache:
        _findings_cache.append(load_findings())
    return _findings_cache[0]


def match_finding(findings, res):
    for f in findings:
        if f.get("status") != "known" or f.get("property") != res.get("property"):
            continue
        s = f.get("signature", {})
        if s.get("kind") == res.get("kind") and s.get("site") == res.get("site") and s.get("shape") == res.get("shape"):
            return f
    return None


# ---------------------------------------------------------------------------------------------
# minimisation
# ---------------------------------------------------------------------------------------------
def minimise(engine, plan, res, cap=300):
    """Greedy plan simplification; a candidate is accepted only if it yields the same signature."""
    target = sig_tuple(res)
    best, best_res = plan, res
    budget = cap
    improved = True
    while improved and budget > 0:
        improved = False
        for cand in engine.shrink_candidates(best):
            if budget <= 0:
                break
            budget -= 1
            try:
                journal(cand, replay=True)
                _rearm()
                r = break_oracle(cand, engine.execute(cand, replay=True))
            except Exception:
                continue
            if r.get("verdict") == "violation" and sig_tuple(r) == target:
                best, best_res = r.get("plan", cand), r
                improved = True
                break
    return best, best_res, cap - budget


def ddmin_list(items):
    """Candidate sub-lists: halves, then quarters ..., then each single removal."""
    n = len(items)
    if n <= 1:
        if n == 1:
            yield []
        return
    chunk = n // 2
    while chunk >= 1:
        for start in range(0, n, chunk):
            cand = items[:start] + items[start + chunk:]
            if len(cand) < n:
                yield cand
        if chunk == 1:
            break
        chunk //= 2


# ---------------------------------------------------------------------------------------------
# worker side
# ---------------------------------------------------------------------------------------------
_engine = None
_minimised_raw = {}
# wall-clock bound on ONE simulated run (or one minimisation candidate): a run normally takes milliseconds to seconds
# (a codegen run: a minute); hitting the cap kills the worker, which is reported as a harness error, never as a pass
RUN_WALL_CAP_S = 600
_armed_at = [0.0]


def _rearm():
    """(Re-)start the wall-clock watchdog, at most every few seconds (micro-second runs must not pay for it)."""
    now = REAL_PERF()
    if now - _armed_at[0] > 5.0:
        _armed_at[0] = now
        faulthandler.dump_traceback_later(RUN_WALL_CAP_S, exit=True)


def _worker_chunk(args):
    engine_name, prop, config, tier, batch_seed, indices, want_digests, do_min = args
    global _engine
    faulthandler.enable()
    faulthandler.dump_traceback_later(RUN_WALL_CAP_S, exit=True)
    try:
        if _engine is None or _engine.name != engine_name:
            _engine = load_engine(engine_name)
            _engine.setup_worker()
        out = {"n": 0, "ok": 0, "violations": [], "harness_errors": [], "stats": {}, "distinct": {},
               "digests": {}, "samples": [], "sim_time_s": 0.0, "steps": 0, "config": config}
        for i in indices:
            _rearm()  # the cap is per run, not per chunk
            seed = derive_seed(batch_seed, engine_name, config, i)
            rng = random.Random(seed)
            rng.run_index = i  # engines may stratify small batches by index
            plan = _engine.gen_plan(rng, config, tier, prop)
            plan["seed"] = seed
            plan["index"] = i
            plan["config"] = config
            plan["engine"] = engine_name
            plan["property"] = prop
            try:
                journal(plan)
                res = break_oracle(plan, _engine.execute(plan, replay=False))
            except HarnessError as e:
                out["harness_errors"].append({"index": i, "error": str(e)})
                continue
            except Exception as e:
                out["harness_errors"].append({"index": i, "error": "".join(traceback.format_exception(e))[-2000:]})
                continue
            out["n"] += 1
            # judged cases of this run: what the engine says, else one per distinct case it contributed, at least one
            out["evals"] = out.get("evals", 0) + (res.get("evals") or max(
                1, len(res.get("distinct", {}).get(_engine.distinct_measure(prop), ()))))
            out["sim_time_s"] += res.get("sim_time_s", 0.0)
            out["steps"] += res.get("steps", 0)
            for k, v in res.get("counts", {}).items():
                out["stats"][k] = out["stats"].get(k, 0) + v
            for name, keys in res.get("distinct", {}).items():
                out["distinct"].setdefault(name, set()).update(keys)
            if want_digests:
                out["digests"][i] = res.get("digest")
            if len(out["samples"]) < 1:
                out["samples"].append(compact_plan(res.get("plan", plan)))
            if res["verdict"] == "ok":
                out["ok"] += 1
            elif res["verdict"] == "violation":
                raw = sig_tuple(res)
                rp = res.get("plan", plan)
                entry = {"index": i, "seed": seed, "raw_sig": list(raw)}
                cnt = _minimised_raw.get(raw, 0)
                if match_finding(_findings(), res) is not None:
                    # a listed known finding: minimisation only ever accepts candidates with this same signature, so the
                    # triage by signature needs no minimised plan
                    entry.update({"plan": rp, "res": strip(res), "min_runs": 0})
                    out["violations"].append(entry)
                    continue
                if do_min and cnt < 1 and sum(_minimised_raw.values()) < 6:
                    # at most one minimisation per raw signature and six per worker: a change that breaks things broadly
                    # must not turn the check into hours of shrinking
                    _minimised_raw[raw] = cnt + 1
                    cap = _engine.min_cap(rp) if hasattr(_engine, "min_cap") else 300
                    mplan, mres, used = minimise(_engine, rp, res, cap)
                    entry.update({"plan": mplan, "res": strip(mres), "min_runs": used, "unmin_plan": rp,
                                  "unmin_res": strip(res)})
                else:
                    entry.update({"plan": rp, "res": strip(res), "min_runs": 0, "unminimised": True})
                out["violations"].append(entry)
            else:
                out["harness_errors"].append({"index": i, "error": res.get("detail", "harness_error")})
        out["distinct"] = {k: sorted(v) for k, v in out["distinct"].items()}
        journal(None)
        return out
    finally:
        faulthandler.cancel_dump_traceback_later()


def break_oracle(plan, res):
    """Replay self-test only (VERIF_BREAK_ORACLE=N): every run whose seed is divisible by N and that passed is turned into
    an artificial violation, so that the minimise / write / fresh-replay path can be exercised on a tree that holds."""
    n = int(os.environ.get("VERIF_BREAK_ORACLE", "0") or 0)
    if n and res.get("verdict") == "ok" and int(plan.get("seed", 1)) % n == 0:
        res = dict(res, verdict="violation", kind="artificial", site="selftest", shape=[str(plan.get("config"))],
                   detail="artificial violation for the replay self-test", log_tail=[])
    return res


def journal(plan, replay=False):
    """The plan being executed, on tmpfs: if the code under test kills the interpreter (a CasADi
    segfault on a mangled cache file, say) the parent can still say which plan it was."""
    p = os.path.join(scratch_root(), "current_plan.json")
    if plan is None:
        try:
            os.remove(p)
        except OSError:
            pass
        return
    with open(p, "w") as f:
        json.dump({"plan": plan, "replay": replay}, f, default=str)


def strip(res):
    return {k: v for k, v in res.items() if k not in ("plan", "distinct", "counts")}


def compact_plan(plan):
    p = dict(plan)
    sch = p.get("schedule")
    if isinstance(sch, dict):
        p["schedule"] = {"picks": sch.get("picks", [])[:40], "costs": sch.get("costs", [])[:12],
                         "n_picks": len(sch.get("picks", []))}
    return p


def load_engine(name):
    import importlib

    sys.path[0:0] = [VERIF] if VERIF not in sys.path else []
    mod = importlib.import_module("engines." + name)
    return mod.Engine()


# ---------------------------------------------------------------------------------------------
# parent side
# ---------------------------------------------------------------------------------------------
def ensure_hashseed():
    want = os.environ.get("VERIF_HASHSEED", "0")
    if os.environ.get("PYTHONHASHSEED") != want:
        env = dict(os.environ)
        env["PYTHONHASHSEED"] = want
        os.execve(PY, [PY] + sys.argv, env)


def run_replay(engine_name, path):
    engine = load_engine(engine_name)
    engine.setup_worker()
    with open(path) as f:
        rec = json.load(f)
    res = break_oracle(rec["plan"], engine.execute(rec["plan"], replay=True))
    return rec, res


def replay_outer(prop, path, as_json):
    """Run the replay in a child interpreter so that a plan that kills the interpreter is reported
    as a violation instead of taking the replay command down with it."""
    out = subprocess.run([PY, os.path.join(VERIF, "bin", "check"), prop, "--replay-inner", path] + (["--json"] if as_json else []),
                         capture_output=True, text=True, timeout=1200, env=dict(os.environ, PYTHONHASHSEED="0"))
    if out.returncode < 0 or out.returncode >= 128:
        res = {"verdict": "violation", "property": prop, "kind": "process_crashed", "site": "?", "shape": [],
               "detail": "interpreter died with status %d" % out.returncode, "digest": None}
        if as_json:
            print("REPLAY-JSON " + json.dumps(res))
        print("VIOLATION property=%s replay=%s" % (prop, path))
        print("  signature=%s" % json.dumps({k: res[k] for k in ("property", "kind", "site", "shape")}))
        print("  detail=%s" % res["detail"])
        return 1
    sys.stdout.write(out.stdout)
    return out.returncode


def fresh_replay(prop, path):
    """Re-execute a replay file in a fresh interpreter; returns its JSON result or None."""
    try:
        out = subprocess.run([PY, os.path.join(VERIF, "bin", "check"), prop, "--replay", path, "--json"],
                             capture_output=True, text=True, timeout=600,
                             env=dict(os.environ, PYTHONHASHSEED="0"))
        for line in out.stdout.splitlines():
            if line.startswith("REPLAY-JSON "):
                return json.loads(line[len("REPLAY-JSON "):])
    except Exception:
        return None
    return None


def fresh_digests(prop, engine_name, config, tier, batch_seed, indices, hashseed, workers):
    env = dict(os.environ, PYTHONHASHSEED=str(hashseed), VERIF_HASHSEED=str(hashseed), VERIF_SEED=str(batch_seed),
               VERIF_WORKERS=str(workers))
    env["VERIF_SCRATCH"] = tempfile.gettempdir()
    env.pop("_VERIF_SCRATCH_TOP", None)
    out = subprocess.run([PY, os.path.join(VERIF, "bin", "check"), prop, "--tier", tier, "--digests", config,
                          ",".join(str(i) for i in indices)], capture_output=True, text=True, timeout=1200, env=env)
    for line in out.stdout.splitlines():
        if line.startswith("DIGESTS-JSON "):
            return {int(k): v for k, v in json.loads(line[len("DIGESTS-JSON "):]).items()}
    raise HarnessError("digest subprocess failed: %s %s" % (out.stdout[-500:], out.stderr[-1500:]))


def digests_main(prop, engine_name, config, tier, batch_seed, indices):
    workers = int(os.environ.get("VERIF_WORKERS", "1"))
    res = {}
    if workers <= 1:
        out = _worker_chunk((engine_name, prop, config, tier, batch_seed, indices, True, False))
        res.update(out["digests"])
        errs = out["harness_errors"]
    else:
        errs = []
        ctx = multiprocessing.get_context("fork")
        chunks = [indices[k::workers] for k in range(workers)]
        with cf.ProcessPoolExecutor(max_workers=workers, mp_context=ctx) as ex:
            for out in ex.map(_worker_chunk, [(engine_name, prop, config, tier, batch_seed, c, True, False)
                                              for c in chunks if c]):
                res.update(out["digests"])
                errs += out["harness_errors"]
    if errs:
        print("HARNESS-ERROR in digest run:", errs[:2])
    print("DIGESTS-JSON " + json.dumps({str(k): v for k, v in res.items()}))


def run_check(prop, engine_name, tier, level, rule, assumptions, components, selftest_n=None, extra=None):
    """Runs every config of the engine for this property and tier.  Returns the exit code."""
    t0 = REAL_PERF()
    batch_seed = int(os.environ.get("VERIF_SEED", "0"))
    budget_s = float(os.environ.get("VERIF_BUDGET_S", "0") or 0)
    workers = int(os.environ.get("VERIF_WORKERS", str(os.cpu_count() or 4)))
    scratch_top()
    engine = load_engine(engine_name)
    engine.setup_worker()  # heavy imports in the parent: children share them copy-on-write
    pre = engine.preflight() if hasattr(engine, "preflight") else {}
    if pre.get("error"):
        print("HARNESS-ERROR preflight: %s" % pre["error"])
        return 2
    configs = engine.configs(tier, prop)
    only = os.environ.get("VERIF_ONLY_CONFIG")  # development aid: a comma-separated list of config-name prefixes
    if only:
        configs = [(c, n) for c, n in configs if any(c.startswith(o) for o in only.split(","))]
    scale = float(os.environ.get("VERIF_RUNS_SCALE", "1") or 1)
    if scale != 1:
        configs = [(c, max(1, int(n * scale))) for c, n in configs]
    findings = load_findings()
    total = {"n": 0, "ok": 0, "violations": [], "harness_errors": [], "stats": {}, "distinct": {},
             "samples": [], "sim_time_s": 0.0, "steps": 0, "per_config": {}, "digests": {}}
    tasks = []
    selftest_n = selftest_n if selftest_n is not None else (16 if tier == "quick" else 200)
    digest_indices = {}
    for config, n in configs:
        chunk = max(1, min(engine.chunk_size(config, tier), (n + workers - 1) // workers))
        k = min(selftest_n, n)
        if hasattr(engine, "selftest_n"):
            k = min(k, engine.selftest_n(config, tier))
        digest_indices[config] = list(range(k))
        for start in range(0, n, chunk):
            idx = list(range(start, min(n, start + chunk)))
            tasks.append((engine_name, prop, config, tier, batch_seed, idx, start < k, True))
    ctx = multiprocessing.get_context("fork")
    stopped_early = False
    died = None
    gc.collect()
    with cf.ProcessPoolExecutor(max_workers=workers, mp_context=ctx) as ex:
        pending = set()
        it = iter(tasks)
        exhausted = False
        try:
            while True:
                while not exhausted and len(pending) < workers * 2:
                    if budget_s and REAL_PERF() - t0 > budget_s:
                        stopped_early = True
                        exhausted = True
                        break
                    try:
                        pending.add(ex.submit(_worker_chunk, next(it)))
                    except StopIteration:
                        exhausted = True
                if not pending:
                    break
                done, pending = cf.wait(pending, return_when=cf.FIRST_COMPLETED)
                for fut in done:
                    out = fut.result()
                    _merge(total, out)
        except cf.process.BrokenProcessPool as e:
            died = _worker_died(prop, engine_name, e)
    # ---- determinism self-test: fresh interpreter, other hash seed, other worker count, other scratch
    selftest = {"checked": 0, "mismatches": 0}
    if selftest_n and not os.environ.get("VERIF_NO_SELFTEST"):
        for config, idx in digest_indices.items():
            have = {i: total["digests"].get((config, i)) for i in idx if (config, i) in total["digests"]}
            if not have:
                continue
            try:
                other = fresh_digests(prop, engine_name, config, tier, batch_seed, sorted(have), 123, 1 if workers > 1 else 2)
            except Exception as e:
                print("HARNESS-ERROR determinism self-test could not run: %s" % e)
                return 2
            for i, d in have.items():
                selftest["checked"] += 1
                if other.get(i) != d:
                    selftest["mismatches"] += 1
                    selftest.setdefault("first_mismatch", {"config": config, "index": i, "a": d, "b": other.get(i)})
    # ---- triage violations
    exit_code = 0
    known_matched = {}
    reported = []
    # unminimised entries inherit the verdict of a minimised entry with the same raw signature
    raw_to_min = {}
    for v in total["violations"]:
        if not v.get("unminimised"):
            raw_to_min.setdefault(tuple(v["raw_sig"]), sig_tuple(v["res"]))
    groups = {}
    for v in total["violations"]:
        s = sig_tuple(v["res"])
        if v.get("unminimised") and tuple(v["raw_sig"]) in raw_to_min:
            s = raw_to_min[tuple(v["raw_sig"])]
            v = dict(v, inherited=True)
        groups.setdefault(s, []).append(v)
    os.makedirs(os.path.join(out_dir("replays"), prop), exist_ok=True)
    for s, vs in sorted(groups.items(), key=lambda kv: str(kv[0])):
        rep = next((v for v in vs if not v.get("inherited")), vs[0])
        f = match_finding(findings, rep["res"])
        if f is not None:
            known_matched[f["what"]] = known_matched.get(f["what"], 0) + len(vs)
            continue
        path = os.path.join(out_dir("replays"), prop, "%s-%d.json" % (sig_hash(list(s)), rep["seed"]))
        rec = {"property": prop, "engine": engine_name, "config": rep["plan"].get("config"), "seed": rep["seed"],
               "plan": rep["plan"], "signature": sig_dict(s),
               "detail": rep["res"].get("detail"), "event_log_tail": rep["res"].get("log_tail"),
               "min_runs": rep.get("min_runs"), "count_in_batch": len(vs)}
        with open(path, "w") as fh:
            json.dump(rec, fh, indent=1, default=str)
        if len(reported) >= 8:
            # enough witnesses were confirmed in a fresh interpreter; the rest are reported as they are
            rec["fresh_replay_reproduced"] = None
            with open(path, "w") as fh:
                json.dump(rec, fh, indent=1, default=str)
            exit_code = 1
            reported.append({"signature": rec["signature"], "replay": path, "count": len(vs), "detail": rec["detail"]})
            continue
        fr = fresh_replay(prop, path)
        if not (fr and fr.get("verdict") == "violation" and sig_tuple(fr) == s):
            # the minimised plan did not reproduce in a fresh interpreter: fall back to the original plan
            if rep.get("unmin_plan") is not None:
                rec["plan"] = rep["unmin_plan"]
                rec["note"] = "minimised plan did not reproduce in a fresh interpreter; unminimised plan written"
                rec["signature"] = sig_dict(sig_tuple(rep["unmin_res"]))
                with open(path, "w") as fh:
                    json.dump(rec, fh, indent=1, default=str)
                fr = fresh_replay(prop, path)
            rec["fresh_replay_reproduced"] = bool(fr and fr.get("verdict") == "violation")
            with open(path, "w") as fh:
                json.dump(rec, fh, indent=1, default=str)
        else:
            rec["fresh_replay_reproduced"] = True
            rec["fresh_replay_digest"] = fr.get("digest")
            with open(path, "w") as fh:
                json.dump(rec, fh, indent=1, default=str)
        exit_code = 1
        reported.append({"signature": rec["signature"], "replay": path, "count": len(vs), "detail": rec["detail"]})
    if died:
        for c in died["culprits"]:
            exit_code = 1
            reported.append({"signature": {"property": prop, "kind": "process_crashed", "site": "?", "shape": []}, "replay": c,
                             "count": 1, "detail": "executing this plan kills the Python interpreter (crash inside the code "
                             "under test or a library it calls); the rest of the batch was lost with the worker pool"})
    for what, n in sorted(known_matched.items()):
        print("KNOWN-FINDING: property=%s %s (matched %d runs)" % (prop, what, n))
    for r in reported:
        print("VIOLATION property=%s replay=%s" % (prop, r["replay"]))
        print("  signature=%s count=%d" % (json.dumps(r["signature"]), r["count"]))
        print("  detail=%s" % (str(r["detail"])[:600],))
    if died and died["error"]:
        print("HARNESS-ERROR %s" % died["error"])
        exit_code = 2 if exit_code == 0 else exit_code
    if total["harness_errors"]:
        print("HARNESS-ERROR %d runs failed inside the harness; first: %s" % (
            len(total["harness_errors"]), str(total["harness_errors"][0])[:1500]))
        exit_code = 2 if exit_code == 0 else exit_code
    if selftest.get("mismatches"):
        print("HARNESS-ERROR determinism self-test: %d of %d digests differ: %s" % (
            selftest["mismatches"], selftest["checked"], selftest.get("first_mismatch")))
        exit_code = 2 if exit_code == 0 else exit_code
    wall = REAL_PERF() - t0
    # ---- evidence
    dn_name = engine.distinct_measure(prop)
    distinct_nontrivial = len(total["distinct"].get(dn_name, ()))
    cov = {
        "evaluations": max(total.get("evals", 0), total["n"]),
        "evaluations_rule": "oracle evaluations: cases judged against the reference (a run judges one or more: every "
                            "transfer / request / permutation / crash point it contains); runs = simulated executions",
        "runs": total["n"],
        "distinct_nontrivial": distinct_nontrivial,
        "rule": rule,
        "samples": total["samples"][:3],
        "exhaustive": False,
        "runs_per_hour": int(total["n"] / wall * 3600) if wall > 0 else 0,
        "sim_time_covered_s": round(total["sim_time_s"], 3),
        "sim_steps": total["steps"],
        "fault_counts": {k[6:]: v for k, v in sorted(total["stats"].items()) if k.startswith("fault:")},
        "probe_counts": {k[6:]: v for k, v in sorted(total["stats"].items()) if k.startswith("probe:")},
        "other_counts": {k: v for k, v in sorted(total["stats"].items()) if not k.startswith(("fault:", "probe:"))},
        "distinct_measures": {k: len(v) for k, v in sorted(total["distinct"].items())},
        "per_config_runs": total["per_config"],
        "components": components,
        "determinism_selftest": selftest,
        "known_findings_matched": known_matched,
        "violations_reported": reported,
        "harness_errors": len(total["harness_errors"]),
        "stopped_early_by_budget": stopped_early,
        "worker_pool_died": bool(died),
        "workers": workers,
        "hashseed": os.environ.get("PYTHONHASHSEED"),
        "repo": os.environ.get("VERIF_REPO", "/repo"),
        "preflight": pre,
    }
    zero_probes = [k for k, v in cov["probe_counts"].items() if v == 0]
    if zero_probes:
        cov["coverage_gaps"] = zero_probes
    if extra:
        cov.update(extra(total) or {})
    ev = {"property_id": prop, "tier": tier, "seed": batch_seed, "level": level, "coverage": cov,
          "assumptions": assumptions, "wall_s": round(wall, 2), "violations": len(reported)}
    os.makedirs(out_dir("evidence"), exist_ok=True)
    with open(os.path.join(out_dir("evidence"), prop + ".json"), "w") as fh:
        json.dump(ev, fh, indent=1, default=str)
    print("%s %s: runs=%d ok=%d violations(unlisted)=%d known=%d distinct_nontrivial=%d wall=%.1fs exit=%d" % (
        prop, tier, total["n"], total["ok"], len(reported), sum(known_matched.values()), distinct_nontrivial, wall,
        exit_code))
    cleanup_scratch()
    return exit_code


def _worker_died(prop, engine_name, e):
    """A worker process died.  Find out whether one of the plans in flight kills a fresh interpreter
    too: then the code under test crashed the process, which is a violation, not a harness error.
    Returns {"culprits": [replay paths], "error": text or None}."""
    import glob

    culprits = []
    os.makedirs(os.path.join(out_dir("replays"), prop), exist_ok=True)
    for jp in sorted(glob.glob(os.path.join(scratch_top(), "w*", "current_plan.json"))):
        try:
            with open(jp) as f:
                j = json.load(f)
        except Exception:
            continue
        plan = j["plan"]
        path = os.path.join(out_dir("replays"), prop, "crashed-%s.json" % sig_hash(plan))
        rec = {"property": prop, "engine": engine_name, "config": plan.get("config"), "seed": plan.get("seed"),
               "plan": plan, "signature": {"property": prop, "kind": "process_crashed", "site": "?", "shape": []},
               "detail": "the interpreter died while executing this plan"}
        with open(path, "w") as f:
            json.dump(rec, f, indent=1, default=str)
        hit = False
        for _attempt in range(3):  # a crash inside a C library need not happen on every execution
            out = subprocess.run([PY, os.path.join(VERIF, "bin", "check"), prop, "--replay", path, "--json"],
                                 capture_output=True, text=True, timeout=900, env=dict(os.environ, PYTHONHASHSEED="0"))
            if '"kind": "process_crashed"' in out.stdout:
                hit = True
                break
        if hit:
            culprits.append(path)
        else:
            os.remove(path)
    return {"culprits": culprits,
            "error": None if culprits else "worker died (timeout or crash) and no plan in flight reproduces it: %s" % e}


def _merge(total, out):
    total["n"] += out["n"]
    total["evals"] = total.get("evals", 0) + out.get("evals", out["n"])
    total["ok"] += out["ok"]
    total["violations"] += out["violations"]
    total["harness_errors"] += out["harness_errors"]
    total["sim_time_s"] += out["sim_time_s"]
    total["steps"] += out["steps"]
    cfg = out["config"]
    total["per_config"][cfg] = total["per_config"].get(cfg, 0) + out["n"]
    for k, v in out["stats"].items():
        total["stats"][k] = total["stats"].get(k, 0) + v
    for k, v in out["distinct"].items():
        total["distinct"].setdefault(k, set()).update(v)
    for i, d in out["digests"].items():
        total["digests"][(cfg, i)] = d
    if len(total["samples"]) < 3:
        total["samples"] += out["samples"][:1]
