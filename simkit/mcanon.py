"""Canonical, numeric comparison of two CasADi models (C19's statement as an executable oracle).

compare(a, b, seed) -> None if equal, else a short description of the first difference.
Everything numeric is NaN-aware; attribute values are compared after evaluation at three seeded
parameter vectors; functions are compared at three seeded inputs."""
import math
import random

import casadi as ca
import numpy as np

ATTRS = ("value", "start", "min", "max", "nominal", "fixed")
CATEGORIES = ("states", "der_states", "alg_states", "inputs", "constants", "parameters")
FUNCS = ("dae_residual", "initial_residual", "variable_metadata", "delay_arguments")
RTOL = 1e-9


def _close(x, y):
    if x != x and y != y:
        return True
    if x != x or y != y:
        return False
    if math.isinf(x) or math.isinf(y):
        return x == y
    return abs(x - y) <= RTOL * max(1.0, abs(x), abs(y))


def _arr_close(a, b):
    a = np.asarray(a, dtype=float).ravel()
    b = np.asarray(b, dtype=float).ravel()
    if a.size != b.size:
        if a.size == 1:
            a = np.repeat(a, b.size)
        elif b.size == 1:
            b = np.repeat(b, a.size)
        else:
            return False
    return all(_close(float(x), float(y)) for x, y in zip(a, b))


def _param_points(model, seed):
    n = sum(v.symbol.numel() for v in model.parameters)
    rng = random.Random(seed)
    return [[rng.choice([0.5, 1.5, 2.0, 3.0, 7.0]) + rng.random() for _ in range(n)] for _ in range(3)]


def _eval_attr(model, attr, points):
    """Value of an attribute at each parameter point, as flat float arrays."""
    if isinstance(attr, ca.MX):
        pv = ca.veccat(*[v.symbol for v in model.parameters])
        f = ca.Function("attr", [pv], [attr])
        return [np.array(f(ca.DM(p) if p else ca.DM(0, 1))).ravel() for p in points]
    if isinstance(attr, (ca.DM, ca.SX)):
        return [np.array(ca.DM(attr)).ravel()] * len(points)
    if attr is None:
        return [np.array([float("nan")])] * len(points)
    return [np.asarray(attr, dtype=float).ravel()] * len(points)


def _alias_classes(rel):
    out = set()
    for c in rel.canonical_variables:
        cls = set(rel.aliases(c))
        names = sorted(v.lstrip("-") for v in cls)
        first = names[0]
        if ("-" + first) in cls:
            cls = {v[1:] if v.startswith("-") else "-" + v for v in cls}
        out.add(frozenset(cls))
    return out


def _func_inputs(f, seed):
    rng = random.Random(seed)
    pts = []
    for _ in range(3):
        args = []
        for i in range(f.n_in()):
            sp = f.sparsity_in(i)
            args.append(ca.DM(sp, [0.25 + 1.5 * rng.random() for _ in range(sp.nnz())]))
        pts.append(args)
    # "at every input": one more point with a NaN in every input vector that has entries (a parameter without a value is
    # NaN in pymoca); both sides must propagate or ignore it alike
    base = [[0.25 + 1.5 * rng.random() for _ in range(f.sparsity_in(i).nnz())] for i in range(f.n_in())]
    spots = [(i, j) for i in range(f.n_in()) for j in range(len(base[i]))]
    if len(spots) > 12:
        spots = rng.sample(spots, 12)
    for (i0, j0) in spots:  # one point per entry (up to 12): only that entry is NaN
        args = []
        for i in range(f.n_in()):
            vals = list(base[i])
            if i == i0:
                vals[j0] = float("nan")
            args.append(ca.DM(f.sparsity_in(i), vals))
        pts.append(args)
    return pts


def compare(a, b, seed=0):
    # ---- variables per category: names, order, shapes, python types
    for cat in CATEGORIES:
        va, vb = getattr(a, cat), getattr(b, cat)
        na = [(v.symbol.name(), tuple(v.symbol.shape), v.python_type.__name__) for v in va]
        nb = [(v.symbol.name(), tuple(v.symbol.shape), v.python_type.__name__) for v in vb]
        if na != nb:
            return "%s differ: %r vs %r" % (cat, na[:6], nb[:6])
    # ---- attributes
    pa, pb = _param_points(a, seed), _param_points(b, seed)
    if pa != pb:
        return "parameter vector sizes differ"
    for cat in CATEGORIES:
        if cat == "der_states":
            continue
        for x, y in zip(getattr(a, cat), getattr(b, cat)):
            if sorted(x.aliases) != sorted(y.aliases):
                return "%s %s aliases differ: %r vs %r" % (cat, x.symbol.name(), sorted(x.aliases), sorted(y.aliases))
            for attr in ATTRS:
                try:
                    ea = _eval_attr(a, getattr(x, attr), pa)
                except Exception as e:
                    return "%s %s.%s of first model cannot be evaluated: %r" % (cat, x.symbol.name(), attr, e)
                try:
                    eb = _eval_attr(b, getattr(y, attr), pb)
                except Exception as e:
                    return "%s %s.%s of second model cannot be evaluated: %r" % (cat, x.symbol.name(), attr, e)
                for k, (u, v) in enumerate(zip(ea, eb)):
                    if not _arr_close(u, v):
                        return "%s %s.%s differs at parameter point %d: %r vs %r" % (
                            cat, x.symbol.name(), attr, k, u.tolist()[:6], v.tolist()[:6])
    # ---- outputs, delay states, strings, alias relation
    if list(a.outputs) != list(b.outputs):
        return "outputs differ: %r vs %r" % (a.outputs, b.outputs)
    if list(a.delay_states) != list(b.delay_states):
        return "delay_states differ: %r vs %r" % (a.delay_states, b.delay_states)
    for cat in ("string_constants", "string_parameters"):
        da = [v.to_dict() for v in getattr(a, cat)]
        db = [v.to_dict() for v in getattr(b, cat)]
        if da != db:
            return "%s differ: %r vs %r" % (cat, da, db)
    if _alias_classes(a.alias_relation) != _alias_classes(b.alias_relation):
        return "alias relation differs: %r vs %r" % (sorted(map(sorted, _alias_classes(a.alias_relation))),
                                                     sorted(map(sorted, _alias_classes(b.alias_relation))))
    # ---- delay arguments as (expression, duration) lists have equal length
    if len(a.delay_arguments) != len(b.delay_arguments):
        return "number of delay arguments differs: %d vs %d" % (len(a.delay_arguments), len(b.delay_arguments))
    # ---- the four functions
    for name in FUNCS:
        fa, fb = getattr(a, name + "_function"), getattr(b, name + "_function")
        if fa.n_in() != fb.n_in() or fa.n_out() != fb.n_out():
            return "%s: arity differs (%d->%d vs %d->%d)" % (name, fa.n_in(), fa.n_out(), fb.n_in(), fb.n_out())
        for i in range(fa.n_in()):
            if fa.size_in(i) != fb.size_in(i):
                return "%s: input %d shape differs %r vs %r" % (name, i, fa.size_in(i), fb.size_in(i))
        for k, args in enumerate(_func_inputs(fa, seed + 17)):
            oa = fa.call(args)
            ob = fb.call(args)
            for i, (u, v) in enumerate(zip(oa, ob)):
                if u.shape != v.shape:
                    return "%s: output %d shape differs %r vs %r" % (name, i, u.shape, v.shape)
                ua, vb_ = np.array(ca.DM(u)).ravel(), np.array(ca.DM(v)).ravel()
                for j, (p, q) in enumerate(zip(ua, vb_)):
                    if not _close(float(p), float(q)):
                        return "%s: output %d element %d differs at input point %d: %r vs %r" % (name, i, j, k, p, q)
    return None
