"""sqlite3.connect seam: proxy connection/cursor objects whose every call is a yield point,
SQLite's own busy handler (via ctypes) driven by the simulated clock, a registry of open
connections (leaks, crash clean-up, remove-while-in-use detection) and os.remove / os.mkdir
seams for the cache folder.
"""
import ctypes
import os
import sqlite3
import weakref

from .core import SimCrash, HarnessAbort

REAL_CONNECT = sqlite3.connect
REAL_REMOVE = os.remove
REAL_UNLINK = os.unlink
REAL_MKDIR = os.mkdir
REAL_STAT = os.stat
REAL_OS_OPEN = os.open

_lib = None
BUSYCB = ctypes.CFUNCTYPE(ctypes.c_int, ctypes.c_void_p, ctypes.c_int)
_DB_OFFSET = object.__basicsize__  # sqlite3* is the first field after PyObject_HEAD (CPython >= 3.11)

_DELAYS = [1, 2, 5, 10, 15, 20, 25, 25, 25, 50, 50, 100]
_TOTALS = [0, 1, 3, 8, 18, 33, 53, 78, 103, 128, 178, 228]

_active = None  # the SqlShim of the run in progress (one per OS process at a time)


def _load_lib():
    global _lib
    if _lib is None:
        lib = ctypes.CDLL("libsqlite3.so.0")
        lib.sqlite3_busy_handler.argtypes = [ctypes.c_void_p, BUSYCB, ctypes.c_void_p]
        lib.sqlite3_busy_handler.restype = ctypes.c_int
        lib.sqlite3_libversion.restype = ctypes.c_char_p
        if lib.sqlite3_libversion().decode() != sqlite3.sqlite_version:
            raise RuntimeError("libsqlite3.so.0 is not the library _sqlite3 uses")
        _lib = lib
    return _lib


def _db_pointer(conn):
    return ctypes.c_void_p.from_address(id(conn) + _DB_OFFSET).value


def install():
    """Patch the library objects once per OS process.  With no active shim, or for a thread
    that is not a simulated actor, or for a path outside the sandbox, everything passes through."""
    if getattr(sqlite3.connect, "_verif_seam", False):
        return
    _load_lib()

    def connect(database, *args, **kwargs):
        s = _active
        if s is None or not s.wants(database):
            return REAL_CONNECT(database, *args, **kwargs)
        return s.connect(database, *args, **kwargs)

    connect._verif_seam = True
    sqlite3.connect = connect

    def remove(path, *a, **k):
        s = _active
        if s is None or not s.wants(path):
            return REAL_REMOVE(path, *a, **k)
        return s.remove(path, REAL_REMOVE, *a, **k)

    def unlink(path, *a, **k):
        s = _active
        if s is None or not s.wants(path):
            return REAL_UNLINK(path, *a, **k)
        return s.remove(path, REAL_UNLINK, *a, **k)

    def mkdir(path, *a, **k):
        s = _active
        if s is None or not s.wants(path):
            return REAL_MKDIR(path, *a, **k)
        s.sched.yield_point("mkdir", s.rel(path))
        return REAL_MKDIR(path, *a, **k)

    os.remove = remove
    os.unlink = unlink
    os.mkdir = mkdir

    # existence checks and raw creation of files in the cache folder are pre-emption points too
    # (check-then-create races need two callers between the check and the creation)
    def stat(path, *a, **k):
        s = _active
        if s is None or isinstance(path, int) or not s.wants(path):
            return REAL_STAT(path, *a, **k)
        s.sched.yield_point("stat", s.rel(path))
        return REAL_STAT(path, *a, **k)

    def os_open(path, *a, **k):
        s = _active
        if s is None or not s.wants(path):
            return REAL_OS_OPEN(path, *a, **k)
        s.sched.yield_point("os_open", s.rel(path))
        return REAL_OS_OPEN(path, *a, **k)

    os.stat = stat
    os.open = os_open


class ConnRec:
    __slots__ = ("real", "path", "actor", "proc", "open", "timeout_ms", "cb", "nbusy", "leaked",
                 "call_id", "cid", "finalize_at")

    def __init__(self):
        self.open = True
        self.nbusy = 0
        self.leaked = False
        self.cb = None
        self.finalize_at = None


class SqlShim:
    def __init__(self, sched, sandbox, gc_latency_us=0):
        self.sched = sched
        self.sandbox = os.path.realpath(sandbox)
        self.gc_latency_us = gc_latency_us  # -1: at process exit
        self.recs = []
        self.stats = {"connect": 0, "busy_handler": 0, "busy_immediate": 0, "busy_timeout": 0,
                      "leaked": 0, "remove": 0, "remove_while_open": 0, "sql": 0}
        self.remove_violations = []
        self.calls_in_progress = {}  # actor idx -> call id (set by the engine)
        self.handler_ok = True

    # -- activation ---------------------------------------------------------------------
    def __enter__(self):
        global _active
        install()
        _active = self
        return self

    def __exit__(self, *exc):
        global _active
        _active = None
        self.close_all()
        return False

    def wants(self, path):
        if self.sched.me() is None:
            return False
        try:
            p = os.path.realpath(os.fspath(path))
        except TypeError:
            return False
        return p.startswith(self.sandbox + os.sep) or p == self.sandbox

    def rel(self, path):
        p = os.path.realpath(os.fspath(path))
        return os.path.relpath(p, self.sandbox)

    # -- connect ------------------------------------------------------------------------
    def connect(self, database, timeout=5.0, *args, **kwargs):
        a = self.sched.me()
        self.sched.yield_point("connect", self.rel(database))
        kwargs["check_same_thread"] = False
        real = REAL_CONNECT(database, timeout, *args, **kwargs)
        rec = ConnRec()
        rec.real = real
        rec.path = os.path.realpath(os.fspath(database))
        rec.actor = a.idx
        rec.proc = a.proc
        rec.timeout_ms = int(timeout * 1000)
        rec.call_id = self.calls_in_progress.get(a.idx)
        rec.cid = len(self.recs)
        self.recs.append(rec)
        self.stats["connect"] += 1
        if rec.timeout_ms > 0:
            rec.cb = BUSYCB(self._make_cb(rec))
            rc = _lib.sqlite3_busy_handler(_db_pointer(real), rec.cb, None)
            if rc != 0:
                self.handler_ok = False
        proxy = ConnProxy(self, rec)
        weakref.finalize(proxy, self._proxy_died, rec)
        return proxy

    def _make_cb(self, rec):
        def cb(_arg, count):
            try:
                return self._busy(rec, count)
            except BaseException:
                return 0
        return cb

    def _busy(self, rec, count):
        a = self.sched.me()
        if a is None or a.state == "dead" or self.sched.aborted is not None:
            return 0
        if count < len(_DELAYS):
            delay, prior = _DELAYS[count], _TOTALS[count]
        else:
            delay = _DELAYS[-1]
            prior = _TOTALS[-1] + delay * (count - (len(_DELAYS) - 1))
        if prior + delay > rec.timeout_ms:
            delay = rec.timeout_ms - prior
            if delay <= 0:
                return 0
        rec.nbusy += 1
        self.stats["busy_handler"] += 1
        self.sched.sleep_until(self.sched.clock.now_us + delay * 1000, "busy", "c%d n=%d" % (rec.cid, count))
        if a.state == "dead" or self.sched.aborted is not None:
            return 0
        return 1

    # -- one SQL-level call ----------------------------------------------------------------
    def call(self, rec, kind, detail, fn, *args):
        a = self.sched.me()
        if a is None:
            return fn(*args)
        self.sched.yield_point(kind, "c%d %s" % (rec.cid, detail))
        before = rec.nbusy
        self.stats["sql"] += 1
        try:
            return fn(*args)
        except (SimCrash, HarnessAbort):
            raise
        except BaseException as e:
            if a.state == "dead":
                raise SimCrash()
            if self.sched.aborted is not None:
                raise HarnessAbort()
            if isinstance(e, sqlite3.OperationalError) and "locked" in str(e):
                if rec.nbusy == before:
                    self.stats["busy_immediate"] += 1
                    self.sched.log.add(self.sched.clock.now_us, a.idx, "busy_immediate", "c%d" % rec.cid)
                else:
                    self.stats["busy_timeout"] += 1
                    self.sched.log.add(self.sched.clock.now_us, a.idx, "busy_timeout", "c%d" % rec.cid)
            raise

    def close(self, rec):
        a = self.sched.me()
        if a is not None:
            self.sched.yield_point("close", "c%d" % rec.cid)
        self._finalize(rec)

    def _finalize(self, rec):
        if rec.open:
            rec.open = False
            try:
                rec.real.close()
            except Exception:
                pass

    # -- leaks / garbage collector as a seam -------------------------------------------------
    def _proxy_died(self, rec):
        if not rec.open:
            return
        rec.leaked = True
        self.stats["leaked"] += 1
        if self.gc_latency_us >= 0:
            t = self.sched.clock.now_us + self.gc_latency_us
            rec.finalize_at = t
            self.sched.at(t, lambda: self._finalize(rec), "gc c%d" % rec.cid)
        # else: finalised at process exit (process_exit / close_all)

    def process_exit(self, proc):
        for rec in self.recs:
            if rec.proc == proc:
                self._finalize(rec)

    def actor_died(self, actor):
        """Killed process: the OS closes its descriptors (rollback, locks released)."""
        for rec in self.recs:
            if rec.actor == actor.idx:
                self._finalize(rec)

    def close_all(self):
        for rec in self.recs:
            self._finalize(rec)

    def open_leaked(self):
        return [r for r in self.recs if r.open and r.leaked]

    # -- file removal --------------------------------------------------------------------------
    def remove(self, path, realfn, *a, **k):
        me = self.sched.me()
        self.sched.yield_point("remove", self.rel(path))
        p = os.path.realpath(os.fspath(path))
        self.stats["remove"] += 1
        users = [r for r in self.recs
                 if r.open and r.path == p and r.actor != me.idx and not r.leaked
                 and self.calls_in_progress.get(r.actor) is not None
                 and self.calls_in_progress.get(r.actor) == r.call_id]
        if users:
            self.stats["remove_while_open"] += 1
            self.remove_violations.append({"by": me.idx, "users": sorted({r.actor for r in users}),
                                           "path": self.rel(path)})
            self.sched.log.add(self.sched.clock.now_us, me.idx, "remove_while_open", self.rel(path))
        return realfn(path, *a, **k)


def _sql_head(sql):
    s = " ".join(str(sql).split())
    return s[:60]


class ConnProxy:
    def __init__(self, shim, rec):
        object.__setattr__(self, "_shim", shim)
        object.__setattr__(self, "_rec", rec)

    def cursor(self, *a, **k):
        return CursorProxy(self, self._rec.real.cursor(*a, **k))

    def execute(self, sql, *params):
        cur = self.cursor()
        cur.execute(sql, *params)
        return cur

    def executemany(self, sql, *params):
        cur = self.cursor()
        cur.executemany(sql, *params)
        return cur

    def executescript(self, sql):
        cur = self.cursor()
        cur.executescript(sql)
        return cur

    def commit(self):
        return self._shim.call(self._rec, "commit", "", self._rec.real.commit)

    def rollback(self):
        return self._shim.call(self._rec, "rollback", "", self._rec.real.rollback)

    def close(self):
        return self._shim.close(self._rec)

    def __enter__(self):
        return self

    def __exit__(self, et, ev, tb):
        if et is None:
            self.commit()
        else:
            self.rollback()
        return False

    def __getattr__(self, name):
        return getattr(self._rec.real, name)

    def __setattr__(self, name, value):
        setattr(self._rec.real, name, value)


class CursorProxy:
    def __init__(self, conn, real):
        self._conn = conn
        self._real = real

    @property
    def connection(self):
        return self._conn

    def execute(self, sql, *params):
        c = self._conn
        c._shim.call(c._rec, "exec", _sql_head(sql), self._real.execute, sql, *params)
        return self

    def executemany(self, sql, *params):
        c = self._conn
        c._shim.call(c._rec, "execmany", _sql_head(sql), self._real.executemany, sql, *params)
        return self

    def executescript(self, sql):
        c = self._conn
        c._shim.call(c._rec, "script", _sql_head(sql), self._real.executescript, sql)
        return self

    def fetchone(self):
        c = self._conn
        return c._shim.call(c._rec, "fetchone", "", self._real.fetchone)

    def fetchall(self):
        c = self._conn
        return c._shim.call(c._rec, "fetchall", "", self._real.fetchall)

    def fetchmany(self, *a):
        c = self._conn
        return c._shim.call(c._rec, "fetchmany", "", self._real.fetchmany, *a)

    def close(self):
        return self._real.close()

    def __iter__(self):
        return iter(self.fetchall())

    def __getattr__(self, name):
        return getattr(self._real, name)


def selftest(tmpdir):
    """Two connections, forced contention: the handler must fire for a plain lock wait and must
    NOT fire for the deferred-upgrade deadlock.  Returns (ok, detail)."""
    _load_lib()
    path = os.path.join(tmpdir, "selftest.db")
    a = REAL_CONNECT(path, 5.0, isolation_level=None, check_same_thread=False)
    b = REAL_CONNECT(path, 5.0, isolation_level=None, check_same_thread=False)
    a.execute("CREATE TABLE t (x)")
    calls = []

    def cb(_arg, count):
        calls.append(count)
        if count >= 2:
            a.execute("COMMIT")
            return 1
        return 1

    cbo = BUSYCB(cb)
    _lib.sqlite3_busy_handler(_db_pointer(b), cbo, None)
    a.execute("BEGIN IMMEDIATE")
    a.execute("INSERT INTO t VALUES (1)")
    b.execute("BEGIN IMMEDIATE")  # waits: handler 0,1,2 then A commits
    b.execute("COMMIT")
    ok1 = calls == [0, 1, 2]
    # deadlock: both hold SHARED, A holds RESERVED, B asks RESERVED -> immediate BUSY
    calls.clear()

    def cb2(_arg, count):
        calls.append(count)
        return 0

    cbo2 = BUSYCB(cb2)
    _lib.sqlite3_busy_handler(_db_pointer(b), cbo2, None)
    a.execute("BEGIN")
    b.execute("BEGIN")
    a.execute("SELECT * FROM t").fetchall()
    b.execute("SELECT * FROM t").fetchall()
    a.execute("INSERT INTO t VALUES (2)")
    try:
        b.execute("INSERT INTO t VALUES (3)")
        ok2 = False
    except sqlite3.OperationalError:
        ok2 = calls == []
    a.execute("ROLLBACK")
    b.execute("ROLLBACK")
    a.close()
    b.close()
    os.remove(path)
    return ok1 and ok2, {"wait_counts_ok": ok1, "deadlock_no_handler": ok2}
