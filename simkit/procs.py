"""Simulated processes: one fresh module instance of pymoca.parser per process, with its own
version label (and a version marker wrapped around _parse, see DESIGN 2.6)."""
import importlib.util
import os
import re
import sys
import types

_code_cache = {}


def repo_root():
    return os.environ.get("VERIF_REPO", "/repo")


def setup_paths():
    r = repo_root()
    for p in (r, os.path.join(r, "src")):
        if p in sys.path:
            sys.path.remove(p)
    sys.path[0:0] = [os.path.join(r, "src"), r]


def import_pymoca(label="0.0.sim+dirty.dirty"):
    """Import the package from the tree under test and overwrite its version label."""
    setup_paths()
    import pymoca

    if not os.path.realpath(pymoca.__file__).startswith(os.path.realpath(repo_root())):
        raise RuntimeError("pymoca imported from %s, not from %s" % (pymoca.__file__, repo_root()))
    pymoca.__version__ = label
    return pymoca


class _PkgView(types.ModuleType):
    """What a simulated process sees as the `pymoca` package: the real package, except for
    its own version label."""

    def __init__(self, real, label):
        super().__init__(real.__name__)
        object.__setattr__(self, "_real", real)
        self.__dict__["__version__"] = label

    def __getattr__(self, name):
        return getattr(object.__getattribute__(self, "_real"), name)


def marker_name(label):
    return "VerifVersionMarker_" + re.sub(r"[^A-Za-z0-9]", "_", label)


class SimProcess:
    def __init__(self, label, marker=True):
        import pymoca
        import pymoca.ast as ast

        self.label = label
        path = os.path.join(os.path.dirname(pymoca.__file__), "parser.py")
        code = _code_cache.get(path)
        if code is None:
            with open(path, "rb") as f:
                code = compile(f.read(), path, "exec")
            _code_cache[path] = code
        spec = importlib.util.spec_from_file_location("pymoca.parser", path)
        mod = importlib.util.module_from_spec(spec)
        saved = pymoca.__version__
        pymoca.__version__ = label
        try:
            exec(code, mod.__dict__)
        finally:
            pymoca.__version__ = saved
        mod.pymoca = _PkgView(pymoca, label)
        if "__version__" in mod.__dict__:
            mod.__version__ = label
        self.mod = mod
        self.marker = False
        if marker and hasattr(mod, "_parse"):
            orig = mod._parse
            mname = marker_name(label)

            def _parse(text, *a, **k):
                tree = orig(text, *a, **k)
                if tree is not None:
                    c = ast.Class(name=mname, type="package")
                    c.parent = tree
                    tree.classes[mname] = c
                return tree

            mod._parse = _parse
            self.marker = True

    def parse(self, text, **kw):
        return self.mod.parse(text, **kw)

    def reference(self, text):
        return self.mod.parse(text, bypass_cache=True)


def tree_module():
    """A fresh module instance of pymoca.tree (its module-level state - memo tables and the like - starts empty), bound to
    the shared pymoca.ast so that parsed trees can be handed to it.  One per simulated process: the system under test
    gets one per run, every reference computation a pristine one of its own."""
    import pymoca

    path = os.path.join(os.path.dirname(pymoca.__file__), "tree.py")
    code = _code_cache.get(path)
    if code is None:
        with open(path, "rb") as f:
            code = compile(f.read(), path, "exec")
        _code_cache[path] = code
    mod = types.ModuleType("pymoca.tree")
    mod.__file__ = path
    mod.__package__ = "pymoca"
    exec(code, mod.__dict__)
    return mod


class RefWorld:
    """A second, completely separate copy of the pymoca package in this interpreter (own module objects for pymoca.ast,
    pymoca.tree, the parser, the backends ...): the *reference process*.  Inside `with ref_world:` every `import pymoca...`
    (and every unpickling of a tree) resolves to that copy, so a reference computation shares no module-level or
    class-level state with the code under test.  Only plain data (digests) may leave the block."""

    PREFIXES = ("pymoca", "tools")

    def __init__(self, label="0.0.verif-ref.dirty"):
        saved = self._take()
        try:
            setup_paths()
            import pymoca

            pymoca.__version__ = label
            import pymoca.ast  # noqa: F401
            import pymoca.parser  # noqa: F401
            import pymoca.tree  # noqa: F401
            import pymoca.backends.sympy.generator  # noqa: F401
            import pymoca.backends.xml.generator  # noqa: F401
            import pymoca.backends.casadi.generator  # noqa: F401
        finally:
            self.mods = self._take()
            sys.modules.update(saved)
        self._outer = None

    @classmethod
    def _take(cls):
        out = {}
        for k in list(sys.modules):
            if any(k == p or k.startswith(p + ".") for p in cls.PREFIXES):
                out[k] = sys.modules.pop(k)
        return out

    def __enter__(self):
        self._outer = self._take()
        sys.modules.update(self.mods)
        return self

    def __exit__(self, *exc):
        self.mods = self._take()  # (modules imported lazily inside the block belong to the reference copy)
        sys.modules.update(self._outer)
        self._outer = None
        return False


class ApiProcess:
    """A simulated process as far as the CasADi API is concerned: a fresh module instance of
    pymoca.backends.casadi.api bound to its own version label."""

    def __init__(self, label, marker=True):
        import pymoca
        import pymoca.backends.casadi.api as real_api  # noqa: F401  (makes sure the package is imported)

        self.label = label
        path = os.path.join(os.path.dirname(pymoca.__file__), "backends", "casadi", "api.py")
        code = _code_cache.get(path)
        if code is None:
            with open(path, "rb") as f:
                code = compile(f.read(), path, "exec")
            _code_cache[path] = code
        spec = importlib.util.spec_from_file_location("pymoca.backends.casadi.api", path)
        mod = importlib.util.module_from_spec(spec)
        saved = pymoca.__version__
        pymoca.__version__ = label
        try:
            exec(code, mod.__dict__)
        finally:
            pymoca.__version__ = saved
        mod.__version__ = label
        self.mod = mod
        # Give the label the meaning it has in reality (another version may compile differently): every model this
        # version compiles carries a marker output named after the label (the real function is wrapped, not replaced).
        if marker and hasattr(mod, "_compile_model"):
            orig = mod._compile_model
            mname = marker_name(label)

            def _compile_model(*a, **k):
                model = orig(*a, **k)
                model.outputs = list(model.outputs) + [mname]
                return model

            mod._compile_model = _compile_model

    def transfer_model(self, folder, name, options):
        return self.mod.transfer_model(folder, name, dict(options))
