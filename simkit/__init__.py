"""Deterministic-simulation kernel for pymoca (see /verif/DESIGN.md section 2)."""
