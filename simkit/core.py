"""Simulated clock, schedule source (seed / replay) and the baton scheduler.

Exactly one thread of the system under test runs at any moment.  Who runs next and how
long (in simulated microseconds) its step takes are decisions drawn from a ScheduleSource:
from a PRNG in seed mode (and recorded), from the record in replay mode.
"""
import hashlib
import json
import random
import os
import threading
import time as _time

REAL_TIME_NS = _time.time_ns
REAL_TIME = _time.time
REAL_MONOTONIC = _time.monotonic
REAL_MONOTONIC_NS = _time.monotonic_ns
REAL_SLEEP = _time.sleep
REAL_PERF = _time.perf_counter


class SimCrash(BaseException):
    """The simulated process/thread was killed at a yield point."""


class HarnessAbort(BaseException):
    """Step cap hit or harness failure: unwinds actors; the run is a harness error."""


class HarnessError(Exception):
    pass


def derive_seed(*parts) -> int:
    h = hashlib.sha256(":".join(str(p) for p in parts).encode()).digest()
    return int.from_bytes(h[:8], "big")


# ---------------------------------------------------------------------------------------
# clock
# ---------------------------------------------------------------------------------------
EPOCH_US = 1_750_000_000_000_000  # fixed simulated "now" at the start of every run


class SimClock:
    def __init__(self, start_us=EPOCH_US):
        self.now_us = start_us
        self.start_us = start_us

    def time_ns(self):
        return self.now_us * 1000

    def time(self):
        return self.now_us / 1e6

    def advance(self, delta_us):
        self.now_us += int(delta_us)

    def advance_to(self, t_us):
        if t_us > self.now_us:
            self.now_us = int(t_us)

    def elapsed_s(self):
        return (self.now_us - self.start_us) / 1e6


_current_clock = None
real_clock_reads = 0  # canary: reads of time.time_ns/time.time that were not served by a SimClock


def _sim_time_ns():
    c = _current_clock
    if c is None:
        return REAL_TIME_NS()
    return c.time_ns()


def _sim_time():
    c = _current_clock
    if c is None:
        return REAL_TIME()
    return c.time()


def _sim_monotonic():
    c = _current_clock
    if c is None:
        return REAL_MONOTONIC()
    return c.time()


def _sim_monotonic_ns():
    c = _current_clock
    if c is None:
        return REAL_MONOTONIC_NS()
    return c.time_ns()


_current_sched = None  # the scheduler of the run in progress (set by Sched.run / run_inline)


def _sim_sleep(seconds):
    """time.sleep of the code under test (retry / polling loops): simulated time passes, other actors run meanwhile,
    and a kill can land here.  Threads the simulator does not own (and the harness itself) really sleep."""
    c = _current_clock
    s = _current_sched
    if c is None:
        return REAL_SLEEP(seconds)
    t_us = c.now_us + max(0, int(seconds * 1e6))
    if s is not None:
        if s.me() is None and s.inline is None:
            return REAL_SLEEP(seconds)
        return s.sleep_point(t_us)
    c.advance_to(t_us)


REAL_LOCK = threading.Lock
REAL_RLOCK = threading.RLock


class SimLock:
    """threading.Lock / RLock of the code under test.  An actor that finds it taken does not block in C (the holder is
    parked at a seam and could never release it): every failed attempt is a yield point, so the scheduler runs the
    holder on.  Threads the simulator does not own get the real behaviour."""

    def __init__(self, reentrant=False):
        self._real = REAL_LOCK()
        self._reentrant = reentrant
        self._owner = None
        self._count = 0

    def _me(self):
        return threading.get_ident()

    def acquire(self, blocking=True, timeout=-1):
        if self._reentrant and self._owner == self._me():
            self._count += 1
            return True
        s = _current_sched
        a = s.me() if s is not None else None
        if a is None:
            ok = self._real.acquire(blocking, timeout)
        else:
            deadline = None if timeout is None or timeout < 0 else s.clock.now_us + int(timeout * 1e6)
            ok = self._real.acquire(False)
            while not ok and blocking:
                if deadline is not None and s.clock.now_us >= deadline:
                    break
                s.lock_wait(a)
                ok = self._real.acquire(False)
        if ok:
            self._owner = self._me()
            self._count = 1
        return ok

    def release(self):
        if self._reentrant:
            if self._owner != self._me():
                raise RuntimeError("cannot release un-acquired lock")
            self._count -= 1
            if self._count:
                return
        self._owner = None
        self._real.release()

    def locked(self):
        return self._real.locked()

    def __enter__(self):
        self.acquire()
        return self

    def __exit__(self, *exc):
        self.release()
        return False


def install_lock_seam(root):
    """threading.Lock() / RLock() called from files under `root` (the tree under test) return a SimLock; every other
    caller (standard library, the harness) gets the real thing."""
    import sys as _sys

    root = os.path.realpath(root) + os.sep

    def from_sut():
        f = _sys._getframe(2)
        return os.path.realpath(f.f_code.co_filename).startswith(root)

    def lock():
        return SimLock(False) if from_sut() else REAL_LOCK()

    def rlock():
        return SimLock(True) if from_sut() else REAL_RLOCK()

    threading.Lock = lock
    threading.RLock = rlock


def install_clock_seam():
    """Replace time.time_ns / time.time / time.monotonic(_ns) / time.sleep on the library object.  With no simulated
    clock active they pass through to the real functions (so the harness itself keeps working)."""
    _time.time_ns = _sim_time_ns
    _time.time = _sim_time
    _time.monotonic = _sim_monotonic
    _time.monotonic_ns = _sim_monotonic_ns
    _time.sleep = _sim_sleep


def set_clock(clock):
    global _current_clock
    _current_clock = clock


# ---------------------------------------------------------------------------------------
# schedule source
# ---------------------------------------------------------------------------------------
class SeedSchedule:
    """Draws scheduling decisions from a PRNG and records them as two streams:
    picks (which actor runs next) and costs (simulated microseconds per step)."""

    replay = False

    def __init__(self, seed, cost_lo=50, cost_hi=2000):
        self.rng = random.Random(seed)
        self.picks = []
        self.costs = []
        self.cost_lo = cost_lo
        self.cost_hi = cost_hi

    def pick(self, candidates, live):
        a = candidates[self.rng.randrange(len(candidates))] if len(candidates) > 1 else candidates[0]
        self.picks.append(a)
        return a

    def cost(self):
        c = self.rng.randint(self.cost_lo, self.cost_hi)
        self.costs.append(c)
        return c

    def record(self):
        return {"picks": self.picks, "costs": self.costs}


class ReplaySchedule:
    """Hands back the recorded picks and costs.  Fixed fallback rule when the record does not
    fit (possible only after minimisation): lowest-index live actor, default cost."""

    replay = True
    DEFAULT_COST = 100

    def __init__(self, record):
        record = record or {}
        self.src_picks = list(record.get("picks", []))
        self.src_costs = list(record.get("costs", []))
        self.pp = 0
        self.cp = 0
        self.picks = []
        self.costs = []

    def pick(self, candidates, live):
        a = None
        if self.pp < len(self.src_picks):
            a = self.src_picks[self.pp]
            self.pp += 1
        if a not in live:
            a = min(live)
        self.picks.append(a)
        return a

    def cost(self):
        if self.cp < len(self.src_costs):
            c = self.src_costs[self.cp]
            self.cp += 1
        else:
            c = self.DEFAULT_COST
        self.costs.append(c)
        return c

    def record(self):
        return {"picks": self.picks, "costs": self.costs}


# ---------------------------------------------------------------------------------------
# event log
# ---------------------------------------------------------------------------------------
class EventLog:
    def __init__(self, keep=True):
        self.h = hashlib.sha256()
        self.n = 0
        self.keep = keep
        self.events = []

    def add(self, t_us, actor, kind, detail=""):
        rec = (self.n, t_us, actor, kind, detail)
        self.n += 1
        self.h.update(json.dumps(rec, sort_keys=True, default=str).encode())
        if self.keep:
            self.events.append(rec)

    def digest(self):
        return self.h.hexdigest()

    def tail(self, n=40):
        return [list(e) for e in self.events[-n:]]


# ---------------------------------------------------------------------------------------
# scheduler
# ---------------------------------------------------------------------------------------
class Actor:
    def __init__(self, idx, proc, fn):
        self.idx = idx
        self.proc = proc
        self.fn = fn
        self.ready_at = 0
        self.state = "new"  # new / live / done / dead
        self.sem = threading.Semaphore(0)
        self.steps = 0
        self.thread = None
        self.error = None  # harness-side exception escaping the actor body
        self.in_call = False


class Sched:
    """Baton scheduler + discrete-event clock.

    Inline mode (run_inline): the calling thread is the only actor; yield points only do the
    bookkeeping (count, crash, stall, cost, due events).
    Baton mode (run): every actor is a real thread; exactly one holds the baton.
    """

    WINDOW_US = 2000
    WATCHDOG_S = 30

    def __init__(self, clock, source, log, step_cap=2000, stalls=None, crash=None):
        self.clock = clock
        self.source = source
        self.log = log
        self.step_cap = step_cap
        self.actors = {}
        self.main_sem = threading.Semaphore(0)
        self.current = None
        self.events = []  # (t_us, seq, fn, label)
        self._evseq = 0
        self.total_steps = 0
        self.aborted = None
        self.stalls = {(s["actor"], s["at_step"]): s["dur_us"] for s in (stalls or [])}
        self.crash = (crash["actor"], crash["at_step"]) if crash else None
        self.fired = {"stall": 0, "crash": 0}
        self.inline = None
        self._tls = threading.local()
        self.sched_sig = hashlib.sha256()
        self.on_actor_exit = None
        self.urgent = []

    # -- events ------------------------------------------------------------------------
    def at(self, t_us, fn, label=""):
        self._evseq += 1
        self.events.append((t_us, self._evseq, fn, label))
        self.events.sort(key=lambda e: (e[0], e[1]))

    def _fire_due(self):
        while self.events and self.events[0][0] <= self.clock.now_us:
            t, _, fn, label = self.events.pop(0)
            self.log.add(self.clock.now_us, -1, "event", label)
            fn()

    def drain_events(self):
        """Fire every remaining event (end of run / process exit)."""
        while self.events:
            t = self.events[0][0]
            self.clock.advance_to(t)
            self._fire_due()

    # -- actors ------------------------------------------------------------------------
    def me(self):
        return getattr(self._tls, "actor", None)

    def spawn(self, idx, proc, fn):
        a = Actor(idx, proc, fn)
        a.ready_at = self.clock.now_us
        self.actors[idx] = a
        return a

    def _actor_main(self, a):
        self._tls.actor = a
        a.sem.acquire()
        try:
            if self.aborted is None and a.state != "dead":
                a.fn(a)
        except SimCrash:
            pass
        except HarnessAbort:
            pass
        except BaseException as e:  # harness bug inside an actor body
            a.error = repr(e)
            self.aborted = self.aborted or ("actor body raised: %r" % (e,))
        finally:
            try:
                if self.on_actor_exit:
                    self.on_actor_exit(a)
            except BaseException as e:
                self.aborted = self.aborted or ("on_actor_exit raised: %r" % (e,))
            if a.state != "dead":
                a.state = "done"
            self.log.add(self.clock.now_us, a.idx, "exit", a.state)
            self.main_sem.release()

    def run(self):
        global _current_sched
        _current_sched = self
        try:
            self._run()
        finally:
            _current_sched = None

    def _run(self):
        for a in self.actors.values():
            a.state = "live"
            a.thread = threading.Thread(target=self._actor_main, args=(a,), name="actor-%d" % a.idx)
            a.thread.daemon = True
            a.thread.start()
        while True:
            if self.urgent:
                a = self.actors[self.urgent.pop(0)]
                if a.thread.is_alive():
                    self.current = a
                    a.sem.release()
                    if not self.main_sem.acquire(timeout=self.WATCHDOG_S):
                        self.aborted = "actor %d is blocked outside a seam while unwinding" % a.idx
                        raise HarnessError(self.aborted)
                    self.current = None
                continue
            live = {i: a for i, a in self.actors.items() if a.state == "live"}
            if not live:
                break
            first = min(a.ready_at for a in live.values())
            cands = sorted(i for i, a in live.items() if a.ready_at <= first + self.WINDOW_US)
            if self.aborted is not None:
                pick = min(live)
            else:
                pick = self.source.pick(cands, live)
            a = self.actors[pick]
            self.clock.advance_to(a.ready_at)
            self._fire_due()
            self.current = a
            a.sem.release()
            if not self.main_sem.acquire(timeout=self.WATCHDOG_S):
                # The actor holding the baton is blocked on something the simulator does not own (e.g. SQLite's
                # per-connection mutex, held by an actor that is parked inside the busy handler, when the code under
                # test shares one connection between threads).  A free-running execution would not be stuck here;
                # the simulation cannot continue.  Neither a pass nor a violation: a harness error.
                self.aborted = "actor %d is blocked outside a seam (wall-clock watchdog %ds)" % (a.idx, self.WATCHDOG_S)
                raise HarnessError(self.aborted)
            self.current = None
        for a in self.actors.values():
            a.thread.join(10)
        self.drain_events()
        if self.aborted is not None:
            raise HarnessError(self.aborted)

    def run_inline(self, fn):
        """Run fn in the calling thread as the only actor (index 0)."""
        a = Actor(0, 0, fn)
        a.state = "live"
        a.ready_at = self.clock.now_us
        self.actors = {0: a}
        self.inline = a
        self._tls.actor = a
        global _current_sched
        prev_sched = _current_sched
        _current_sched = self
        try:
            return fn(a)
        finally:
            _current_sched = prev_sched
            self._tls.actor = None
            self.inline = None
            if a.state != "dead":
                a.state = "done"

    # -- seam entry points (called from actor threads while they hold the baton) ---------
    def yield_point(self, kind, detail=""):
        a = self.me()
        if a is None:
            return
        if a.state == "dead":
            raise SimCrash()
        if self.aborted is not None:
            raise HarnessAbort()
        a.steps += 1
        self.total_steps += 1
        if self.total_steps > self.step_cap:
            self.aborted = "step cap %d exceeded" % self.step_cap
            raise HarnessAbort()
        if self.crash is not None and self.crash == (a.idx, a.steps):
            a.state = "dead"
            self.fired["crash"] += 1
            self.log.add(self.clock.now_us, a.idx, "crash", "%s %s" % (kind, detail))
            # a killed process takes all its threads with it, at this very instant
            for b in self.actors.values():
                if b is not a and b.proc == a.proc and b.state == "live":
                    b.state = "dead"
                    self.urgent.append(b.idx)
            raise SimCrash()
        self._progress = getattr(self, "_progress", 0) + 1
        self.log.add(self.clock.now_us, a.idx, kind, detail)
        self.sched_sig.update(("%d|%s|%s;" % (a.idx, kind, str(detail).split(" ")[0])).encode())
        dur = self.stalls.get((a.idx, a.steps))
        cost = self.source.cost()
        if dur is not None:
            self.fired["stall"] += 1
            cost = dur
        self._park(a, self.clock.now_us + cost)

    def sleep_point(self, t_us):
        """time.sleep() of the code under test: a yield point whose cost is the requested duration."""
        a = self.me()
        if a is None:
            self.clock.advance_to(t_us)
            self._fire_due()
            return
        if a.state == "dead":
            raise SimCrash()
        if self.aborted is not None:
            raise HarnessAbort()
        a.steps += 1
        self.total_steps += 1
        if self.total_steps > self.step_cap * 5:
            self.aborted = "step cap exceeded in sleeps"
            raise HarnessAbort()
        if self.crash is not None and self.crash == (a.idx, a.steps):
            a.state = "dead"
            self.fired["crash"] += 1
            self.log.add(self.clock.now_us, a.idx, "crash", "sleep")
            for b in self.actors.values():
                if b is not a and b.proc == a.proc and b.state == "live":
                    b.state = "dead"
                    self.urgent.append(b.idx)
            raise SimCrash()
        self._progress = getattr(self, "_progress", 0) + 1
        self.log.add(self.clock.now_us, a.idx, "sleep", str(max(0, t_us - self.clock.now_us)))
        self.sched_sig.update(("%d|sleep;" % a.idx).encode())
        self._park(a, t_us)

    def lock_wait(self, a):
        """An actor found a lock of the code under test taken: yield, so that the holder can run on.  If nothing but
        lock waits happens for a long stretch, every live actor is waiting: a deadlock of the code under test."""
        if a.state == "dead":
            raise SimCrash()
        if self.aborted is not None:
            raise HarnessAbort()
        live = [b for b in self.actors.values() if b.state == "live"]
        # (actors that are themselves parked in a lock wait do not count: two waiters must not wake each other in turns)
        others = [b.ready_at for b in live if b is not a and not getattr(b, "lock_waiting", False)]
        if not others:
            others = [b.ready_at for b in live if b is not a]
        # a deadlock: every live actor has been through several lock waits since anybody last did anything else
        prog = getattr(self, "_progress", 0)
        if getattr(a, "lw_prog", None) == prog:
            a.lw_count = getattr(a, "lw_count", 0) + 1
        else:
            a.lw_prog, a.lw_count = prog, 1
        if not others or all(getattr(b, "lw_prog", None) == prog and getattr(b, "lw_count", 0) >= 3 for b in live):
            self.aborted = "deadlock: every live actor waits for a lock of the code under test"
            raise HarnessAbort()
        # wait until just after the next other actor has run (it may be the holder): no spinning through simulated time
        self.log.add(self.clock.now_us, a.idx, "lock_wait", "")
        self.sched_sig.update(("%d|lock_wait;" % a.idx).encode())
        a.lock_waiting = True
        try:
            self._park(a, max(self.clock.now_us, min(others)) + 1)
        finally:
            a.lock_waiting = False

    def sleep_until(self, t_us, kind="sleep", detail=""):
        """Block the calling actor until simulated time t_us (busy-handler waits)."""
        a = self.me()
        if a is None:
            self.clock.advance_to(t_us)
            self._fire_due()
            return
        if self.aborted is not None or a.state == "dead":
            return
        self.total_steps += 1
        if self.total_steps > self.step_cap * 5:
            self.aborted = "step cap exceeded in sleeps"
            return
        self._progress = getattr(self, "_progress", 0) + 1
        self.log.add(self.clock.now_us, a.idx, kind, detail)
        self._park(a, t_us, in_handler=True)

    def _park(self, a, ready_at, in_handler=False):
        a.ready_at = ready_at
        if self.inline is a:
            self.clock.advance_to(ready_at)
            self._fire_due()
            return
        self.main_sem.release()
        a.sem.acquire()
        if a.state == "dead":
            if in_handler:
                return
            raise SimCrash()
        if self.aborted is not None:
            if in_handler:
                return
            raise HarnessAbort()


class FixedSchedule:
    """For sequential engines: nothing is drawn during execution."""

    replay = True

    def __init__(self, cost=100):
        self._cost = cost

    def pick(self, candidates, live):
        return min(live)

    def cost(self):
        return self._cost

    def record(self):
        return None
