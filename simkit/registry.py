"""Property -> engine, level, evidence texts."""

_COMPONENTS_COMMON = {
    "real": ["all of pymoca from the working tree (parser, ast, tree, backends, tools.compiler)", "antlr4 runtime",
             "sqlite3 + libsqlite3 on a real file", "pickle"],
    "simulated": ["clock (time.time_ns/time.time)", "thread scheduling (baton)", "SQLite lock-wait timing (busy handler)",
                  "process boundaries (module instances of pymoca.parser)", "restart / crash", "garbage-collection latency "
                  "of leaked connections", "version label"],
    "stub": ["none of pymoca; _parse is wrapped (not replaced) to stamp the version marker"],
}

_COMPONENTS_MCACHE = {
    "real": ["all of pymoca from the working tree (parser, tree, CasADi generator, model simplification, api.save_model / "
             "load_model / transfer_model)", "CasADi", "pickle", "real files in a tmpfs sandbox"],
    "simulated": ["clock (file mtimes are stamped from it)", "process boundaries (module instances of the api module)",
                  "restart / crash at file-operation and byte granularity", "scheduling of concurrent transfer_model calls",
                  "short raw writes (chunk knob)", "version label"],
    "stub": ["nothing of pymoca; the C compiler of codegen mode is not interleaved (cache mode only)"],
}

_COMPONENTS_AST = {
    "real": ["pymoca parser, ast, tree.flatten, CasADi / SymPy / XML generators, tools.compiler from the working tree",
             "the reference runs the same code in a separate copy of the package (procs.RefWorld), i.e. in a process of its own"],
    "simulated": ["the callers / owners of trees and the order of their requests and edits"],
    "stub": [],
}

CHECKS = {
    "C26": {
        "engine": "cli_faults",
        "level": "fault_enumeration",
        "rule": "Seeded invocations of tools.compiler.main in a sandbox (valid files, a file with a syntax error, a "
                "sub-directory, an output directory): 1-3 PATHs (file / directory / missing), 0-3 -m (valid, failing to "
                "flatten, unknown, repeated), target none / sympy / casadi, -O well-formed or not, -o existing / missing / "
                "a file. control = fault-free run of every invocation; single_faults = for every I/O site of the "
                "invocation's own trace (every source open/read, every output open/write/close) every applicable fault "
                "(EIO, EACCES, ENOENT = vanished, ENOSPC), one at a time, exhaustively; fault_pairs = seeded pairs; "
                "casadi_faults = the same single-fault enumeration for -t casadi, where the sources are read inside the "
                "CasADi API: the tool has to count exactly the transfer_model calls that raised (observed by wrapping, not "
                "replacing, the call); sequence = 2-3 invocations by ONE process, each judged against its single-run reference; "
                "a third of the control invocations use relative names from inside the sandbox (@lib, @out ...). The "
                "exit status is compared with a staged reference (argparse -> 2; usage errors; unreadable/unparsable "
                "files or no file; failing models incl. those whose output write was hit by a fired fault). "
                "distinct_nontrivial = distinct (invocation, fired fault set).",
        "assumptions": ["over argv alone the property is a pure function; the control configuration is kept only so that "
                        "fault-mode relaxations cannot hide ordinary bugs, it is not claimed as coverage of all invocations",
                        "when errors of two categories coexist in the input only 0 < status <= total is required",
                        "casadi target: no files with syntax errors in the paths; under faults the per-model outcome is taken from "
                        "the observed transfer_model call (whether an I/O error makes a compile fail is the API's business)"],
        "components": {"real": ["tools.compiler.main, pymoca parser / tree / SymPy generator / CasADi API from the working "
                                "tree", "argparse"],
                       "simulated": ["file system faults at the open/read/write/close seam (EIO, EACCES, ENOSPC, vanished "
                                     "file or directory)"], "stub": []},
    },
    "C27": {
        "engine": "lib_order",
        "level": "exploration",
        "rule": "Seeded package libraries (package-level constants, nested package, 4-7 models/connectors/types referring "
                "to each other and to the constants by relative and fully qualified names) rendered as one file (the "
                "reference) and split into 2-5 files with within clauses; merge: parse + Tree.extend in EVERY permutation "
                "of the files, every class flattened and compared with the single-file library; walk: the CasADi API "
                "(transfer_model) and the compiler tool on the folder with os.scandir's order decided by the plan (all "
                "permutations of <= 4 entries per directory; flat, nested and standard package.mo-per-directory layouts, "
                "the latter with equal base names in several directories); the API result is also compared (compiles? same "
                "variables?) with the API run on the single-file library. A fifth of the libraries have a top package "
                "whose own declaration is nothing but an import clause. folders: the files spread over model and library "
                "folders (prefix-named) given in every order. threads: two threads of one process merge two libraries at the "
                "same time, pre-empted at every line of pymoca/ast.py inside Tree.extend. distinct_nontrivial = distinct "
                "(split shape, permutation class, entry point, file assignment/order).",
        "assumptions": ["the per-file declaration counter Symbol.order is not part of the flattened model and is ignored "
                        "in the comparison", "walk leg: models compared across directory orders (not with the single file), "
                        "with replace_constant_values as the CasADi backend needs it for constants in attributes"],
        "components": {"real": ["pymoca parser, ast (Tree.extend), tree.flatten, CasADi API _compile_model, tools.compiler "
                                "from the working tree"],
                       "simulated": ["directory enumeration order (os.scandir seam)", "merge order"], "stub": []},
    },
    "C05": {
        "engine": "flatten_hist",
        "level": "exploration",
        "rule": "Request histories (flatten, CasADi generate with 4 option sets, SymPy generate, XML generate) on one shared "
                "parsed tree, every request compared with the same request on a fresh copy of the parse: sweep = every class "
                "of every library (own pool + every test model) in three fixed shapes (each twice, all then reversed, "
                "backends mixed in), seeded = 2-10 random requests, cli = tools.compiler.main with 2-3 -m requests in both "
                "orders against the single requests. Own pool: 10 libraries (connectors, redeclare of replaceable models with "
                "modified components, package-level and aliased imports incl. classes whose lookup fails, shadowing "
                "packages, deep extends chains, arrays, functions). distinct_nontrivial = distinct (library, multiset of classes "
                "requested before, class, operation) with a non-empty history.",
        "assumptions": ["no fault dimension exists for this property; the simulated parties are the callers sharing a tree",
                        "a request that fails on a fresh parse only has to fail on the shared tree too"],
        "components": _COMPONENTS_AST,
    },
    "C06": {
        "engine": "copy_hist",
        "level": "exploration",
        "rule": "Forests of trees created by copy.deepcopy (copies of copies up to depth 3) whose owners interleave "
                "add/remove symbol/equation/class edits and grafts (a copy of one class of ANOTHER owner's tree, taken with "
                "find_class / deepcopy / copy_including_children, put in place of the class of the same name), replacements of a "
                "class by a same-named class of the other kind, and a motif (backend, balanced edit, backend); after every edit the edited class, a class reaching it through a "
                "component type and one through extends are flattened (via a throw-away deep copy, and via the SymPy/XML "
                "backends, and directly as the last use) on the edited tree (edit visible) and on another tree (invisible) "
                "and compared with a fresh parse + replayed edit log. distinct_nontrivial = distinct (library, copy depth, "
                "edit kind, relation, visible/invisible).",
        "assumptions": ["no fault dimension exists for this property", "libraries: own pool + 12 multi-class test models"],
        "components": _COMPONENTS_AST,
    },
    "C17": {
        "engine": "alias_hist",
        "level": "exploration",
        "rule": "Seeded histories of 2-14 add / remove / copy operations over 3-6 variable names with both signs, "
                "operations addressed to a plan-chosen replica (copies, copies of copies); add pairs that would relate a "
                "variable to its own negation are skipped as the property excludes them. After every operation every "
                "replica is compared with a signed union-find (aliases, canonical_signed, canonical_variables, iteration); "
                "which names are looked up after an operation, and in which order, is part of the plan (every name sorted / "
                "every name in a seeded order / 0-3 chosen names - and then also whether canonical_variables / iteration are "
                "read and on which replicas anything is looked at - plus a full pass in a seeded order at the end), because a "
                "look-up may itself change the object. distinct_nontrivial = distinct (signed partition before, operation) "
                "pairs with a non-trivial class before or after.",
        "assumptions": ["sampling, not exhaustive exploration up to state equivalence (that would be model checking); the "
                        "number of distinct abstract states reached is reported so saturation is visible",
                        "remove of a non-canonical name: the property is silent, the reference accepts 'no change' or "
                        "'whole class dissolved' and flags anything else"],
        "components": {"real": ["pymoca.backends.casadi.alias_relation.AliasRelation from the working tree"],
                       "simulated": ["replicas (copy) and which replica an operation goes to"], "stub": []},
    },
    "C19": {
        "engine": "mcache",
        "level": "exploration",
        "rule": "[build for another option set first ->] save -> simulated process restart -> load [-> load again in the same "
                "process], optionally with a cwd change, with the caller changing the models it was given between the calls "
                "(outputs, string values, attributes, alias relation), in three folder layouts, for every model of "
                "the pool (parameter-dependent attributes, array parameters/variables, aliases, delays with "
                "parameter-dependent duration, strings, library classes via extends/component) x 6 option sets with seeded "
                "literals; distinct_nontrivial = distinct (model, option set, structural variant, history shape) whose "
                "load was compared with a fresh compile. Config roundtrip_codegen: the same round trip for the compiled-library "
                "format (every simulated process a real child interpreter; half of the runs with libraries of an earlier "
                "build for other options in the folder).",
        "assumptions": ["program dimension limited to the model pool (this family contributes the storage path only)",
                        "codegen format: four pool models, a handful of runs in the quick tier (a build costs seconds)"],
        "components": _COMPONENTS_MCACHE,
    },
    "C20": {
        "engine": "mcache",
        "level": "exploration",
        "rule": "Seeded histories of 4-12 operations (30 % built around a revisit motif A -> B -> A of options, version or "
                "file contents), in four folder layouts (library beside the model folder, beside it with a common name "
                "prefix, inside it, names with blanks and glob characters; a sub-directory of the library may be a symlink; "
                "one pool model has its library in two folders), with the clock that stamps files skewed against the "
                "process clock, whitespace-only edits where whitespace matters, a switch to another library folder "
                "holding newer files, and models that the caller uses only at the end of the history: edit a model or library file (mtime strictly later than the cache, "
                "also after backward clock jumps), add a missing file, change option set, change version, restart, clock "
                "jump, transfer_model; after every transfer the result is compared with a fresh compile of the current "
                "sources. distinct_nontrivial = distinct (model, option set, pending invalidation causes, same process?, "
                "cache present?) states at a transfer. Config codegen: the same with compiled shared libraries, every "
                "simulated process a real child interpreter, short histories (a build costs seconds). Config edit_race: an "
                "editor saves a source file at a plan-chosen file operation of 1-2 running transfer_model calls (seeded "
                "schedules); overlapping calls may return either version, a later call must return the new one.",
        "assumptions": ["mtime_check=False, switching to a library folder whose files are OLDER than the cache, edits with preserved/older mtimes and "
                        "deletions are outside the property's precondition and not generated",
                        "codegen: the C compiler and linker run for real and are not interleaved with anything"],
        "components": _COMPONENTS_MCACHE,
    },
    "C21": {
        "engine": "mcache",
        "level": "fault_enumeration",
        "rule": "crash: the cache write is traced on the tree under test, then re-executed with a process kill before "
                "every file operation of the write and inside the raw writes at byte offsets (quick: 200 seeded "
                "offsets for 2 models, thorough: every offset for every pool model), with and without an older cache "
                "file; trunc: every strict prefix (quick: 150) of a complete cache file; race: seeded interleavings of "
                "2-3 transfer_model calls at file-operation granularity with short-write chunking. After each, a new "
                "process must get a correct model twice. codegen_crash: compiled-library format - build, a cause for a rebuild "
                "(options / edit / version), the rebuilding process killed at one of its file operations (between the "
                "library builds, inside the cache-file write), then new processes ask again, mostly with the options / "
                "version the surviving cache file was written for. A third of the truncations hit the second generation "
                "of the cache (build, edit, build). distinct_nontrivial = distinct crash points that fired + "
                "distinct truncation lengths + distinct race schedule signatures.",
        "assumptions": ["process-kill durability (bytes handed to write() are on disk, in order); power-loss reordering is "
                        "not simulated", "byte-offset enumeration and races: pickle format; codegen format: kill points at the "
                        "file operations the Python side performs (the C compiler's own writes are not interrupted)"],
        "components": _COMPONENTS_MCACHE,
    },
    "C01": {
        "engine": "pcache_seq",
        "level": "exploration",
        "rule": "Seeded histories of 4-30 operations on one cache folder: parse(a fresh string object holding a text from a "
                "seeded pool of valid, whitespace-variant, same-length twin, deeply nested and syntactically broken texts; expiration/update flags; folder given or default), "
                "process restart, version change (3 labels + a dirty one), clock jumps (+1 s .. +400 d, -1 d, -40 d), "
                "crash of the process between two SQL statements, corruption of an entry (garbage, prefix, empty, "
                "class gone, NULL, damaged last_hit values), of the table layout and of the database file (garbage, truncations, byte flips, deletion, "
                "and page-level damage that leaves every row well-formed: index entries pointing at the wrong rows); configs "
                "nofault / faults. "
                "distinct_nontrivial = distinct (abstract state, operation) pairs executed by parse operations, where "
                "abstract state = (file class, process initialised?, label, bitmap of pool texts cached under the label, "
                "bitmap of those older than a day).",
        "assumptions": ["SQLite-internal torn writes are represented by whole-file corruption operations only",
                        "a blob that still unpickles to a different object is outside the property and is never generated",
                        "one known finding (index damaged after the live process verified the file) is listed in "
                        "known_findings.json; half of the histories restart the process after that damage",
                        "a seeded sample of histories"],
        "components": _COMPONENTS_COMMON,
    },
    "C02": {
        "engine": "pcache_conc",
        "level": "exploration",
        "rule": "Seeded schedules of 2-4 parse() calls (threads of 1-3 simulated processes, possibly of two pymoca versions) "
                "on one cache folder in initial state absent/empty/fresh/stale/wrong-layout, pre-empted before every SQL "
                "statement, connect, close, mkdir and remove; configs base (no faults), stall (steps of 0.1-10 simulated s, "
                "and a stand-in process that holds the EXCLUSIVE/RESERVED lock for 0.3-12 s as one stalled inside COMMIT "
                "does), crash (a process killed at a yield point), crowd (6-16 processes released at once), fine (every LINE of "
                "the cache code in parser.py is a pre-emption point and a possible kill point as well, via sys.settrace in "
                "the actor threads, so check-then-act sequences between two seam calls interleave). Processes may have used another "
                "cache database before (non-empty per-process memo). "
                "distinct_nontrivial = distinct schedule signatures (hash of the sequence of (actor, seam kind, SQL verb)) "
                "in which at least one lock conflict occurred (busy handler invoked or immediate SQLITE_BUSY).",
        "assumptions": ["SQLite's own page/journal writes are trusted (no VFS shim)", "a seeded sample of schedules, not "
                        "all of them", "free-running 16-process stress is not part of the check (not replayable)"],
        "components": _COMPONENTS_COMMON,
    },
}

MANIFEST_TEXT = {
    "C26": {
        "level_text": "Per generated invocation, exhaustive single-fault enumeration over the I/O sites of its own trace "
                      "(plus seeded pairs) with the exit status checked against a staged reference model; scoped to the "
                      "slice this family can add (I/O failures and multi-model requests), with the fault-free run as "
                      "control.",
        "design_ref": "DESIGN.md 3.C26",
        "level_note": "One sandbox layout; invocations are sampled, faults per invocation are exhaustive for single faults.",
        "technique": "deterministic simulation with fault injection: per-site I/O fault enumeration at the file seam, "
                     "reference model for the exit status",
    },
    "C27": {
        "level_text": "The file order is the schedule: every permutation of the files of seeded library splits through "
                      "Tree.extend, and decided os.scandir orders through the API's and the CLI's directory walks; the "
                      "single-file rendering of the same library is the reference.",
        "design_ref": "DESIGN.md 3.C27",
        "level_note": "Libraries come from one generator family (constants, nested package, extends/component/type "
                      "references, connectors); permutations are exhaustive per split, libraries and splits are sampled.",
        "technique": "deterministic simulation: schedule = directory enumeration / merge order (os.scandir seam), all "
                     "permutations per generated split vs the unsplit reference",
    },
    "C05": {
        "level_text": "Seeded and systematic request histories of several callers on one shared tree, each request compared "
                      "with a single-copy reference (fresh parse); plus joint vs single CLI invocations.",
        "design_ref": "DESIGN.md 3.C05",
        "level_note": "Differential oracle, so libraries whose flattening fails are useful too; samples histories.",
        "technique": "deterministic simulation: multi-caller request histories on shared state vs a single-copy reference model",
    },
    "C06": {
        "level_text": "Seeded interleavings of deep copies and AST edits by the owners of the copies, checked against a "
                      "replayed-edit-log reference model after every edit, on the edited tree and on another tree.",
        "design_ref": "DESIGN.md 3.C06",
        "level_note": "The reference never copies (fresh parse + the tree's own log); samples histories.",
        "technique": "deterministic simulation: interleaved owner histories over replicas vs a replayed-log reference model",
    },
    "C17": {
        "level_text": "Seeded operation histories over replicas of an AliasRelation checked after every step against a "
                      "signed union-find reference model; there is no fault dimension in this component, the simulated "
                      "parties are the replicas created by copy().",
        "design_ref": "DESIGN.md 3.C17",
        "level_note": "Samples histories; the reference follows the implementation's choice of canonical member but checks "
                      "it is a member, shared by the class and sign-consistent.",
        "technique": "deterministic simulation: seeded multi-replica operation histories vs a sequential reference model",
    },
    "C19": {
        "level_text": "Storage round trip (save, simulated restart, load) of a model pool x option sets, every load compared "
                      "numerically with a fresh compile (variables, types, attributes at seeded parameter points, outputs, "
                      "delays, strings, alias relation, the four functions at seeded inputs). Scoped to what this family "
                      "can add: the storage path, not the space of programs.",
        "design_ref": "DESIGN.md 3.C19",
        "level_note": "Pool models only; pickle format broadly, compiled-library format with a few runs per batch; the comparator is the C19 statement made executable and was "
                      "calibrated on 86 (test model, option set) pairs.",
        "technique": "deterministic simulation: save / simulated-process restart / load histories with a fresh-compile "
                     "reference model",
    },
    "C20": {
        "level_text": "Seeded histories of edits with controlled mtimes (simulated clock incl. backward jumps), added files, "
                      "option and version changes and restarts; every transfer_model result is compared with a fresh "
                      "compile of the current sources.",
        "design_ref": "DESIGN.md 3.C20",
        "level_note": "Histories are sampled; codegen histories are few (seconds per build) and run each simulated "
                      "process as a child interpreter; one known finding (stale dlopen) is listed in known_findings.json.",
        "technique": "deterministic simulation: seeded edit/clock/version/restart histories against a fresh-compile "
                     "reference model",
    },
    "C21": {
        "level_text": "Fault enumeration over the crash points of the cache write as traced on the tree under test (every "
                      "file operation, byte offsets inside raw writes), every strict prefix of a complete cache file, and "
                      "seeded reader/writer and writer/writer interleavings; after each, two later transfer_model calls "
                      "must return models equal to a fresh compile.",
        "design_ref": "DESIGN.md 3.C21",
        "level_note": "Process-kill model of durability; quick tier samples byte offsets, thorough enumerates all of them "
                      "(exhaustive only in thorough).",
        "technique": "deterministic simulation with fault injection: crash-point enumeration at the file seam + seeded "
                     "interleavings, fresh-compile oracle",
    },
    "C01": {
        "level_text": "Seeded search over cache histories with restart, crash, clock, version and corruption faults against "
                      "the real parse() on a real SQLite file; after every parse the returned tree is compared "
                      "structurally with an uncached parse under the current version marker, and the rows the database "
                      "holds are checked (no failed parse stored, every unpicklable entry equals its reference). "
                      "Fault-free and fault-injecting configurations are counted separately. Evidence, not proof.",
        "design_ref": "DESIGN.md 2.5-2.6, 3.C01",
        "level_note": "Trusts SQLite's atomic commit; corruption is injected from outside between calls (and by a crash "
                      "inside a call), not inside SQLite's own page writes.",
        "technique": "deterministic simulation: seeded operation/fault histories (restart, crash at SQL-statement "
                     "boundaries, clock jumps, version change, storage corruption) with a differential oracle vs uncached "
                     "parse",
    },
    "C02": {
        "level_text": "Seeded search over thread/process interleavings at SQL-statement granularity with stall and crash "
                      "faults; real SQLite arbitrates locks on a real file, lock waits run on the simulated clock through "
                      "SQLite's own busy handler. Every completed call is compared with an uncached parse; removal of a "
                      "database in use is observed at the os.remove seam; integrity and a later sequential parse are "
                      "checked after faults stop. A clean batch is evidence, not proof.",
        "design_ref": "DESIGN.md 2.3-2.5, 3.C02",
        "level_note": "Trusts SQLite's atomic commit and file locking; CPython struct layout for the busy-handler seam is "
                      "self-tested at start-up; a sample of schedules only.",
        "technique": "deterministic simulation: seeded baton scheduler over real threads + simulated clock/busy handler + "
                     "stall/crash fault injection, differential oracle vs uncached parse",
    },
}

_PURE = "pure function of its input (no clock, shared state, I/O or history in the anchored code): not a simulation target; "
NOT_APPLICABLE = {
    "C03": _PURE + "text -> expression tree is decided by the grammar and listener alone.",
    "C04": _PURE + "text -> class structure; the duplicate-declaration rejection is input-only too.",
    "C07": _PURE + "flatten of a fresh tree depends on the library text only; the stateful aspect of flattening is C05/C06.",
    "C08": _PURE + "modification precedence is decided inside one flatten call; equivalent spellings are two inputs, not two schedules.",
    "C09": _PURE + "connection-set expansion depends on the flat class only; connect order is program text.",
    "C10": _PURE + "variable classification depends on flat class and options only.",
    "C11": _PURE + "residual semantics need a reference Modelica evaluator over generated programs, i.e. input generation.",
    "C12": _PURE + "a finite option enumeration over generated programs; nothing to schedule or fault.",
    "C13": _PURE + "attribute metadata depends on model and parameter values only.",
    "C14": _PURE + "simplify() is a deterministic pass pipeline over one in-memory model.",
    "C15": _PURE + "same pipeline as C14; a counting invariant over generated programs and option sets.",
    "C16": _PURE + "attribute merging inside the same pure pass as C14.",
    "C18": _PURE + "vector expansion is a renaming pass over one model.",
    "C22": _PURE + "delay validation depends on the model only (cache-side reconstruction of delay arguments is exercised under C19/C20).",
    "C23": _PURE + "subscript range checks depend on program text only.",
    "C24": _PURE + "SymPy source generation depends on the flat class only (its deep copy of the tree is C06).",
    "C25": _PURE + "XML generation depends on the flat class only (its deep copy of the tree is C06).",
    # claimed in DESIGN.md, engines not built yet: listed here until their checks are registered
}
