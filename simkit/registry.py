"""Property -> engine, level, evidence texts."""

_COMPONENTS_COMMON = {
    "real": ["all of pymoca from the working tree (parser, ast, tree, backends, tools.compiler)", "antlr4 runtime",
             "sqlite3 + libsqlite3 on a real file", "pickle"],
    "simulated": ["clock (time.time_ns/time.time)", "thread scheduling (baton)", "SQLite lock-wait timing (busy handler)",
                  "process boundaries (module instances of pymoca.parser)", "restart / crash", "garbage-collection latency "
                  "of leaked connections", "version label"],
    "stub": ["none of pymoca; _parse is wrapped (not replaced) to stamp the version marker"],
}

CHECKS = {
    "C01": {
        "engine": "pcache_seq",
        "level": "exploration",
        "rule": "Seeded histories of 4-30 operations on one cache folder: parse(text from a seeded pool of valid, "
                "whitespace-variant and syntactically broken texts; expiration/update flags; folder given or default), "
                "process restart, version change (3 labels + a dirty one), clock jumps (+1 s .. +400 d, -1 d, -40 d), "
                "crash of the process between two SQL statements, corruption of an entry (garbage, prefix, empty, "
                "class gone, NULL), of the table layout and of the database file; configs nofault / faults. "
                "distinct_nontrivial = distinct (abstract state, operation) pairs executed by parse operations, where "
                "abstract state = (file class, process initialised?, label, bitmap of pool texts cached under the label, "
                "bitmap of those older than a day).",
        "assumptions": ["SQLite-internal torn writes are represented by whole-file corruption operations only",
                        "a blob that still unpickles to a different object is outside the property and is never generated",
                        "a seeded sample of histories"],
        "components": _COMPONENTS_COMMON,
    },
    "C02": {
        "engine": "pcache_conc",
        "level": "exploration",
        "rule": "Seeded schedules of 2-4 parse() calls (threads of 1-3 simulated processes) on one cache folder in initial "
                "state absent/empty/fresh/stale/wrong-layout, pre-empted before every SQL statement, connect, close, "
                "mkdir and remove; configs base (no faults), stall (steps of 0.1-10 simulated s), crash (a process "
                "killed at a yield point). distinct_nontrivial = distinct schedule signatures (hash of the sequence of "
                "(actor, seam kind, SQL verb)) in which at least one lock conflict occurred (busy handler invoked or "
                "immediate SQLITE_BUSY).",
        "assumptions": ["SQLite's own page/journal writes are trusted (no VFS shim)", "a seeded sample of schedules, not "
                        "all of them", "free-running 16-process stress is not part of the check (not replayable)"],
        "components": _COMPONENTS_COMMON,
    },
}

MANIFEST_TEXT = {
    "C01": {
        "level_text": "Seeded search over cache histories with restart, crash, clock, version and corruption faults against "
                      "the real parse() on a real SQLite file; after every parse the returned tree is compared "
                      "structurally with an uncached parse under the current version marker, and the rows the database "
                      "holds are checked (no failed parse stored, every unpicklable entry equals its reference). "
                      "Fault-free and fault-injecting configurations are counted separately. Evidence, not proof.",
        "design_ref": "DESIGN.md 2.5-2.6, 3.C01",
        "level_note": "Trusts SQLite's atomic commit; corruption is injected from outside between calls (and by a crash "
                      "inside a call), not inside SQLite's own page writes.",
        "technique": "deterministic simulation: seeded operation/fault histories (restart, crash at SQL-statement "
                     "boundaries, clock jumps, version change, storage corruption) with a differential oracle vs uncached "
                     "parse",
    },
    "C02": {
        "level_text": "Seeded search over thread/process interleavings at SQL-statement granularity with stall and crash "
                      "faults; real SQLite arbitrates locks on a real file, lock waits run on the simulated clock through "
                      "SQLite's own busy handler. Every completed call is compared with an uncached parse; removal of a "
                      "database in use is observed at the os.remove seam; integrity and a later sequential parse are "
                      "checked after faults stop. A clean batch is evidence, not proof.",
        "design_ref": "DESIGN.md 2.3-2.5, 3.C02",
        "level_note": "Trusts SQLite's atomic commit and file locking; CPython struct layout for the busy-handler seam is "
                      "self-tested at start-up; a sample of schedules only.",
        "technique": "deterministic simulation: seeded baton scheduler over real threads + simulated clock/busy handler + "
                     "stall/crash fault injection, differential oracle vs uncached parse",
    },
}

_PURE = "pure function of its input (no clock, shared state, I/O or history in the anchored code): not a simulation target; "
NOT_APPLICABLE = {
    "C03": _PURE + "text -> expression tree is decided by the grammar and listener alone.",
    "C04": _PURE + "text -> class structure; the duplicate-declaration rejection is input-only too.",
    "C07": _PURE + "flatten of a fresh tree depends on the library text only; the stateful aspect of flattening is C05/C06.",
    "C08": _PURE + "modification precedence is decided inside one flatten call; equivalent spellings are two inputs, not two schedules.",
    "C09": _PURE + "connection-set expansion depends on the flat class only; connect order is program text.",
    "C10": _PURE + "variable classification depends on flat class and options only.",
    "C11": _PURE + "residual semantics need a reference Modelica evaluator over generated programs, i.e. input generation.",
    "C12": _PURE + "a finite option enumeration over generated programs; nothing to schedule or fault.",
    "C13": _PURE + "attribute metadata depends on model and parameter values only.",
    "C14": _PURE + "simplify() is a deterministic pass pipeline over one in-memory model.",
    "C15": _PURE + "same pipeline as C14; a counting invariant over generated programs and option sets.",
    "C16": _PURE + "attribute merging inside the same pure pass as C14.",
    "C18": _PURE + "vector expansion is a renaming pass over one model.",
    "C22": _PURE + "delay validation depends on the model only (cache-side reconstruction of delay arguments is exercised under C19/C20).",
    "C23": _PURE + "subscript range checks depend on program text only.",
    "C24": _PURE + "SymPy source generation depends on the flat class only (its deep copy of the tree is C06).",
    "C25": _PURE + "XML generation depends on the flat class only (its deep copy of the tree is C06).",
    # claimed in DESIGN.md, engines not built yet: listed here until their checks are registered
    "C05": "in-family engine (flatten_hist) designed in DESIGN.md but not built yet",
    "C06": "in-family engine (copy_hist) designed in DESIGN.md but not built yet",
    "C17": "in-family engine (alias_hist) designed in DESIGN.md but not built yet",
    "C19": "in-family engine (mcache) designed in DESIGN.md but not built yet",
    "C20": "in-family engine (mcache) designed in DESIGN.md but not built yet",
    "C21": "in-family engine (mcache) designed in DESIGN.md but not built yet",
    "C26": "in-family engine (cli_faults) designed in DESIGN.md but not built yet",
    "C27": "in-family engine (lib_order) designed in DESIGN.md but not built yet",
}
