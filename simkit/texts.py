"""Seeded pools of Modelica source texts for the parse-cache engines.

Every valid text of a pool yields a distinguishable tree (seeded identifiers and literals), so
a served tree is attributable to exactly one text.  Broken variants have a syntax error by
construction (the engines cross-check this against an uncached parse)."""

TEMPLATES = [
    """model M{id} "model {id},
  described on two lines"
  parameter Real k = {a};
  Real x(start = {b});
  Real y;
equation
  der(x) = -k * x + y;
  y = {c} * x;
end M{id};
""",
    """package P{id}
  constant Real c = {a};
  connector Pin{id}
    Real v;
    flow Real i;
  end Pin{id};
  model R{id}
    Pin{id} p, n;
    parameter Real r = {b};
  equation
    p.v - n.v = r * p.i;
    p.i + n.i = 0;
  end R{id};
  model Top{id} "top
    of {id}"
    R{id} r1(r = {c}), r2;
  equation
    connect(r1.n, r2.p);
  end Top{id};
end P{id};
""",
    """within Lib{id};
model W{id}
  extends Base{id}(k = {a});
  Real z[3](each start = {b});
equation
  for i in 1:3 loop
    z[i] = {c} * i;
  end for;
end W{id};
""",
    """function f{id}
  input Real u;
  output Real y;
algorithm
  y := if u > {a} then u ^ 2 else {b} * u;
end f{id};

model F{id}
  Real s;
  input Real u;
  output Real o = f{id}(u) + {c};
equation
  s = sin(time) * {a};
end F{id};
""",
    """model D{id} "comment {id}
  continued on a second line"
  type T{id} = Real(min = {a}, max = {b}0);
  T{id} h(start = {c}, fixed = true);
  discrete Integer n;
  Boolean flag;
initial equation
  h = {c};
equation
  der(h) = if flag then -{a} else {b};
  flag = h > {a} and not (n > 3) or h < -{b};
  when h < 0 then
    n = pre(n) + 1;
  end when;
end D{id};
""",
]

BREAKERS = ["drop_end", "stray_token", "unbalanced", "bad_keyword"]


def make_valid(rng, template=None):
    t = TEMPLATES[rng.randrange(len(TEMPLATES))] if template is None else TEMPLATES[template % len(TEMPLATES)]
    return t.format(id=rng.randrange(10_000, 99_999), a=rng.randrange(1, 90), b=rng.randrange(1, 90),
                    c=rng.randrange(1, 90))


def make_deep(rng):
    """A valid text whose tree is deeply nested: a flat sum / product of many terms is a left-nested chain of binary
    expressions, parentheses and if-expressions nest explicitly.  Legal, unusual, and hard on anything recursive
    between the parser and the cache (pickle)."""
    i = rng.randrange(10_000, 99_999)
    kind = rng.choice(["sum", "sum", "sum", "sum", "sum", "sum", "product", "parens", "ifs"])
    n = rng.choice([240, 320, 320, 450])  # (pickle reaches the interpreter's recursion limit at about 300 terms)
    if kind == "sum":
        expr = " + ".join(["a"] * n)
    elif kind == "product":
        expr = " * ".join(["a", "b"] * (n // 2))
    elif kind == "parens":
        n = min(n, 40)  # (parsing nested parentheses is slow: 0.3 s for 120 levels)
        expr = "(" * n + "a" + " + 1)" * n
    else:
        n = min(n, 80)
        expr = "".join("if a > %d then %d else " % (k, k) for k in range(n)) + "0"
    return ("model Deep%d\n  Real a(start = %d);\n  Real b;\n  Real y;\nequation\n  der(a) = -a;\n  b = %d;\n  y = %s;\n"
            "end Deep%d;\n" % (i, rng.randrange(1, 90), rng.randrange(1, 90), expr, i))


def make_broken(text, how):
    if how == "drop_end":
        i = text.rstrip().rfind("end ")
        return text[:i]
    if how == "stray_token":
        i = text.find(";")
        return text[: i + 1] + " ) ;" + text[i + 1:]
    if how == "unbalanced":
        i = text.find("=")
        return text[: i + 1] + " ((1 + " + text[i + 1:]
    if how == "bad_keyword":
        return text.replace("equation", "equation equation model", 1) if "equation" in text else "model ; end"
    raise ValueError(how)


def whitespace_variant(text, rng):
    lines = text.split("\n")
    k = rng.randrange(len(lines))
    lines.insert(k, "  // variant %d" % rng.randrange(1000))
    return "\n".join(lines).replace("  ", "   ", 1)


VARIANTS = ["comment", "crlf", "trailing_space", "tabs", "final_newline"]


def text_variant(text, rng, how=None):
    """A different text (different hash) that a careless normalisation of the cache key might identify with the
    original; whether the tree differs depends on the text (e.g. CRLF inside a multi-line string does change it)."""
    how = how or VARIANTS[rng.randrange(len(VARIANTS))]
    if how == "comment":
        return whitespace_variant(text, rng)
    if how == "crlf":
        return text.replace("\n", "\r\n")
    if how == "trailing_space":
        return text.replace(";\n", ";  \n", 2)
    if how == "tabs":
        return text.replace("  ", "\t")
    return text + "\n"


def twin(text, rng):
    """A different valid text of exactly the same length (one digit of a numeric literal changed): whatever identifies a
    text by something cheaper than its content (length, object identity, a prefix) confuses the two."""
    import re

    spots = [m.start() for m in re.finditer(r"(?<== )\d", text)]
    if not spots:
        return None
    i = spots[rng.randrange(len(spots))]
    d = str((int(text[i]) + 1 + rng.randrange(8)) % 10)
    if d == "0" or d == text[i]:
        d = "7" if text[i] != "7" else "3"
    return text[:i] + d + text[i + 1:]


def make_pool(rng, n_valid=5, n_broken=2, n_ws=1):
    """Returns list of dicts {text, broken, base (index of the text it is a variant of or None)}."""
    pool = []
    for k in range(n_valid):
        pool.append({"text": make_valid(rng, k if k < len(TEMPLATES) else None), "broken": False, "base": None})
    if rng.random() < float(__import__("os").environ.get("VERIF_DEEP_SHARE", "0.04")):  # (deep recursion is expensive: every level costs the interpreter fresh stack chunks)
        pool[rng.randrange(n_valid)] = {"text": make_deep(rng), "broken": False, "base": None, "deep": True}
    for k in range(n_ws):
        b = rng.randrange(n_valid)
        pool.append({"text": text_variant(pool[b]["text"], rng), "broken": False, "base": b})
    if rng.random() < 0.5:
        b = rng.randrange(n_valid)
        t = twin(pool[b]["text"], rng)
        if t is not None and not pool[b].get("deep"):
            pool.append({"text": t, "broken": False, "base": None})
    for k in range(n_broken):
        b = rng.randrange(n_valid)
        pool.append({"text": make_broken(pool[b]["text"], BREAKERS[rng.randrange(len(BREAKERS))]), "broken": True,
                     "base": b})
    return pool
