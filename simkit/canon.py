"""Canonical structural dumps of pymoca ASTs (and, further down, CasADi models)."""
import enum
import hashlib
from collections import OrderedDict

SKIP = ("parent", "scope", "__deepcopy__")


def canon_ast(node, _depth=0, skip=SKIP):
    """Structural dump: node class names, every field except parent/scope/__deepcopy__,
    ordered containers in order."""
    if _depth > 400:
        raise RecursionError("canon_ast depth")
    if node is None or isinstance(node, (bool, int, str)):
        return node
    if isinstance(node, float):
        return "nan" if node != node else node
    if isinstance(node, enum.Enum):
        return ("enum", type(node).__name__, node.name)
    if isinstance(node, (list, tuple)):
        return tuple(canon_ast(x, _depth + 1, skip) for x in node)
    if isinstance(node, (set, frozenset)):
        return ("set",) + tuple(sorted((canon_ast(x, _depth + 1, skip) for x in node), key=repr))
    if isinstance(node, dict):
        return ("dict",) + tuple((canon_ast(k, _depth + 1, skip), canon_ast(v, _depth + 1, skip)) for k, v in node.items())
    d = getattr(node, "__dict__", None)
    if d is not None:
        return (type(node).__name__,) + tuple(
            (k, canon_ast(v, _depth + 1, skip)) for k, v in d.items() if k not in skip
        )
    return ("obj", type(node).__name__, repr(node))


def digest(obj):
    return hashlib.sha256(repr(obj).encode()).hexdigest()[:24]


_END = object()


def tree_digest(tree, skip=SKIP):
    """Digest of the same structural dump as canon_ast, computed with an explicit stack (a streamed, bracketed token
    sequence), so that trees nested deeper than the interpreter's recursion limit - a sum of some hundred terms is a
    left-nested chain of expressions - can be compared without touching that limit (the code under test runs under
    the interpreter's own)."""
    if tree is None:
        return None
    h = hashlib.sha256()
    stack = [tree]
    while stack:
        node = stack.pop()
        if node is _END:
            h.update(b")")
            continue
        if node is None or isinstance(node, (bool, int, str)):
            h.update(("%s:%r;" % (type(node).__name__, node)).encode())
        elif isinstance(node, float):
            h.update(("float:%s;" % ("nan" if node != node else repr(node))).encode())
        elif isinstance(node, enum.Enum):
            h.update(("enum:%s.%s;" % (type(node).__name__, node.name)).encode())
        elif isinstance(node, (list, tuple)):
            h.update(b"(seq")
            stack.append(_END)
            stack.extend(reversed(node))
        elif isinstance(node, (set, frozenset)):
            # sets in the AST are small and flat: elements by their own digests, sorted
            h.update(("(set%s)" % sorted(tree_digest(x, skip) or "None" for x in node)).encode())
        elif isinstance(node, dict):
            h.update(b"(dict")
            stack.append(_END)
            for k, v in reversed(list(node.items())):
                stack.append(v)
                stack.append(k)
        else:
            d = getattr(node, "__dict__", None)
            if d is not None:
                h.update(("(%s" % type(node).__name__).encode())
                stack.append(_END)
                for k, v in reversed([(k, v) for k, v in d.items() if k not in skip]):
                    stack.append(v)
                    stack.append("field:" + k)
            else:
                h.update(("obj:%s:%r;" % (type(node).__name__, node)).encode())
    return h.hexdigest()[:24]
