"""Canonical structural dumps of pymoca ASTs (and, further down, CasADi models)."""
import enum
import hashlib
from collections import OrderedDict

SKIP = ("parent", "scope", "__deepcopy__")


def canon_ast(node, _depth=0, skip=SKIP):
    """Structural dump: node class names, every field except parent/scope/__deepcopy__,
    ordered containers in order."""
    if _depth > 400:
        raise RecursionError("canon_ast depth")
    if node is None or isinstance(node, (bool, int, str)):
        return node
    if isinstance(node, float):
        return "nan" if node != node else node
    if isinstance(node, enum.Enum):
        return ("enum", type(node).__name__, node.name)
    if isinstance(node, (list, tuple)):
        return tuple(canon_ast(x, _depth + 1, skip) for x in node)
    if isinstance(node, (set, frozenset)):
        return ("set",) + tuple(sorted((canon_ast(x, _depth + 1, skip) for x in node), key=repr))
    if isinstance(node, dict):
        return ("dict",) + tuple((canon_ast(k, _depth + 1, skip), canon_ast(v, _depth + 1, skip)) for k, v in node.items())
    d = getattr(node, "__dict__", None)
    if d is not None:
        return (type(node).__name__,) + tuple(
            (k, canon_ast(v, _depth + 1, skip)) for k, v in d.items() if k not in skip
        )
    return ("obj", type(node).__name__, repr(node))


def digest(obj):
    return hashlib.sha256(repr(obj).encode()).hexdigest()[:24]


def tree_digest(tree, skip=SKIP):
    if tree is None:
        return None
    return digest(canon_ast(tree, 0, skip))
