"""Small helpers shared by the engines: exception sites, logger capture, sandboxes."""
import logging
import os
import re
import shutil
import traceback

from . import procs
from .runner import scratch_root

_run_counter = [0]


def exc_site(e):
    """(type name, normalised message class, innermost frame inside the tree under test)."""
    root = os.path.realpath(procs.repo_root())
    site = "?"
    for fs in traceback.extract_tb(e.__traceback__):
        fn = os.path.realpath(fs.filename)
        if fn.startswith(root + os.sep):
            mod = os.path.splitext(os.path.basename(fn))[0]
            site = "%s:%s" % (mod, fs.name)
    msg = str(e)
    msg = re.sub(r"/[^\s'\"]+", "<path>", msg)
    msg = re.sub(r"0x[0-9a-fA-F]+|[0-9a-f]{12,}|\d+", "#", msg)
    return "%s|%s|%s" % (type(e).__name__, msg[:70], site)


class LogCapture(logging.Handler):
    def __init__(self):
        super().__init__(level=logging.DEBUG)
        self.msgs = []

    def emit(self, record):
        try:
            self.msgs.append((record.levelno, record.getMessage()))
        except Exception:
            pass

    def count(self, needle):
        return sum(1 for _, m in self.msgs if needle in m)


class capture_pymoca_log:
    def __enter__(self):
        self.logger = logging.getLogger("pymoca")
        self.h = LogCapture()
        self.old_level = self.logger.level
        self.old_prop = self.logger.propagate
        self.old_handlers = list(self.logger.handlers)
        for h in self.old_handlers:
            self.logger.removeHandler(h)
        self.logger.addHandler(self.h)
        self.logger.setLevel(logging.DEBUG)
        self.logger.propagate = False
        return self.h

    def __exit__(self, *a):
        self.logger.removeHandler(self.h)
        for h in self.old_handlers:
            self.logger.addHandler(h)
        self.logger.setLevel(self.old_level)
        self.logger.propagate = self.old_prop
        return False


def new_sandbox():
    _run_counter[0] += 1
    # constant path length whatever the scratch base and pid are: absolute paths end up inside
    # pickled cache files, and their length must not change sizes and byte offsets between runs
    root = scratch_root()
    d = os.path.join(root, "run")
    d += "_" * max(0, 96 - len(d))
    shutil.rmtree(d, ignore_errors=True)
    os.makedirs(d)
    return d


def silence_antlr():
    try:
        from antlr4.error.ErrorListener import ConsoleErrorListener

        ConsoleErrorListener.syntaxError = lambda self, *a, **k: None
    except Exception:
        pass
