"""File-system seam: builtins.open / os.replace / os.rename / os.remove / os.stat / os.scandir for
paths under the run's sandbox.  Every call is a yield point (interleavings, crash points), is
recorded in a trace, and may be hit by an injected fault decided by the plan.

Durability model: process kill.  Bytes handed to a raw write() are on disk, in order; a process
that was killed writes nothing more (writes issued while unwinding are dropped)."""
import builtins
import errno
import io
import os

from .core import SimCrash

REAL_OPEN = builtins.open
REAL_IO_OPEN = io.open
REAL_REPLACE = os.replace
REAL_RENAME = os.rename
REAL_REMOVE = os.remove
REAL_UNLINK = os.unlink
REAL_STAT = os.stat
REAL_SCANDIR = os.scandir
REAL_UTIME = os.utime
REAL_MKDIR = os.mkdir

_active = None
_installed = False

ERRNOS = {"EIO": errno.EIO, "EACCES": errno.EACCES, "ENOSPC": errno.ENOSPC, "ENOENT": errno.ENOENT}


def _oserror(name, path):
    return OSError(ERRNOS[name], os.strerror(ERRNOS[name]), str(path))


class FaultyRaw(io.FileIO):
    """Raw file whose writes/reads/close go through the seam."""

    def __init__(self, fs, path, mode, rel):
        super().__init__(path, mode)
        self._fs = fs
        self._rel = rel
        self._writing = any(c in mode for c in "wax+")
        self._wrote = False
        # a file's modification time is the time of its last write (or of its creation / truncation), not of its close
        self._mtime_ns = self._now_ns() if self._writing else None

    def _now_ns(self):
        c = self._fs.clock
        return None if c is None else c.time_ns() + getattr(c, "fs_skew_us", 0) * 1000

    def write(self, b):
        fs = self._fs
        n = len(b)
        self._mtime_ns = self._now_ns()
        if fs.dead():
            return n  # killed process: nothing more reaches the disk
        cut = fs.before("write", self._rel, n)
        if cut is not None:
            kind, k = cut
            if kind == "crash":
                if k > 0:
                    super().write(bytes(b[:k]))
                    self._wrote = True
                fs.kill()
                raise SimCrash()
            if kind == "short":
                super().write(bytes(b[:k]))
                self._wrote = True
                raise _oserror("ENOSPC", self._rel)
            raise _oserror(kind, self._rel)
        self._wrote = True
        if fs.chunk and n > fs.chunk:
            # a legal short write: the buffered layer above calls again with the rest
            return super().write(bytes(b[: fs.chunk]))
        return super().write(b)

    def readinto(self, b):
        fs = self._fs
        cut = fs.before("read", self._rel, len(b))
        if cut is not None and cut[0] != "crash":
            raise _oserror(cut[0], self._rel)
        return super().readinto(b)

    def readall(self):
        fs = self._fs
        cut = fs.before("read", self._rel, -1)
        if cut is not None and cut[0] != "crash":
            raise _oserror(cut[0], self._rel)
        return super().readall()

    def read(self, size=-1):
        if size is None or size < 0:
            return self.readall()
        fs = self._fs
        cut = fs.before("read", self._rel, size)
        if cut is not None and cut[0] != "crash":
            raise _oserror(cut[0], self._rel)
        return super().read(size)

    def close(self):
        if self.closed:
            return
        fs = self._fs
        err = None
        if not fs.dead():
            cut = fs.before("close", self._rel, 0)
            if cut is not None and cut[0] != "crash":
                err = cut[0]
            elif cut is not None:
                super().close()
                fs.kill()
                raise SimCrash()
        path = self.name
        super().close()
        if self._writing and fs.clock is not None and not fs.dead() and self._mtime_ns is not None:
            t = self._mtime_ns  # time of the last write, on the file system's clock
            try:
                REAL_UTIME(path, ns=(t, t))
            except OSError:
                pass
        if err:
            raise _oserror(err, self._rel)


class FsSeam:
    """One per run.  `faults` maps a site index (position in the trace of seam calls) or a
    (kind, nth) pair to a fault; `crash_at` = (site index, byte count) kills the process there."""

    def __init__(self, sandbox, sched=None, clock=None, record=True):
        self.sandbox = os.path.realpath(sandbox)
        self.sched = sched
        self.clock = clock
        self.trace = []  # [kind, relpath, n]
        self.record = record
        self.faults = {}  # site index -> (errname | "short", bytes)
        self.crash_at = None  # (site index, byte count)
        self.fired = []
        self.killed = False
        self.scandir_order = None  # callable(relpath, names) -> ordered names
        self.watch = None  # optional predicate(relpath) restricting fault/crash sites
        self.chunk = None  # tuning knob: raw writes longer than this are short writes

    # -- activation -----------------------------------------------------------------------
    def __enter__(self):
        global _active
        install()
        _active = self
        return self

    def __exit__(self, *exc):
        global _active
        _active = None
        return False

    def wants(self, path):
        if isinstance(path, int):
            return False
        try:
            p = os.path.abspath(os.fspath(path))
        except TypeError:
            return False
        if isinstance(p, bytes):
            return False
        if not (p.startswith(self.sandbox + os.sep) or p == self.sandbox):
            rp = os.path.realpath(p)
            if not (rp.startswith(self.sandbox + os.sep) or rp == self.sandbox):
                return False
        if self.sched is not None and self.sched.me() is None:
            return False
        return True

    def rel(self, path):
        return os.path.relpath(os.path.realpath(os.path.abspath(os.fspath(path))), self.sandbox)

    def dead(self):
        if self.killed:
            return True
        if self.sched is not None:
            a = self.sched.me()
            return a is not None and a.state == "dead"
        return False

    def kill(self):
        self.killed = True
        if self.sched is not None:
            a = self.sched.me()
            if a is not None:
                a.state = "dead"

    def before(self, kind, rel, n):
        """Called before a seam operation: yield point + trace + fault lookup.
        Returns None, ("crash", k), ("short", k) or (errname, 0)."""
        if self.dead():
            raise SimCrash()
        idx = len(self.trace)
        self.trace.append([kind, rel, n])
        if self.sched is not None:
            self.sched.yield_point("fs_" + kind, "%s %d" % (norm_rel(rel), n))
        if self.crash_at is not None and self.crash_at[0] == idx:
            self.fired.append(["crash", idx, kind, rel, self.crash_at[1]])
            return ("crash", min(self.crash_at[1], n))
        f = self.faults.get(idx)
        if f is not None:
            if len(f) > 2 and (f[2] != kind or f[3] != rel.split(":")[0]):
                return None  # after an earlier fault the trace shifted: this is no longer the intended site
            self.fired.append([f[0], idx, kind, rel, f[1]])
            return f[:2]
        return None


_KNOWN = None


def norm_rel(rel):
    """Replace unpredictable temporary-file names (uuid, mkstemp) in logged paths."""
    import re

    global _KNOWN
    if _KNOWN is None:
        _KNOWN = re.compile(r"^[A-Za-z_][A-Za-z0-9_]*\.(mo|pymoca_cache|so|c|o|py|db)(:[a-z+]+)?$")
    parts = rel.split("->")
    out = []
    for p in parts:
        d, b = os.path.split(p)
        if not _KNOWN.match(b):
            m = re.search(r"(:[a-z+]+)$", b)
            b = "<tmp>" + (m.group(1) if m else "")
        out.append(os.path.join(d, b))
    return "->".join(out)


def _parse_mode(mode):
    binary = "b" in mode
    raw = "".join(c for c in mode if c in "rwxa+")
    return binary, raw


def install():
    global _installed
    if _installed:
        return
    _installed = True

    def open_(file, mode="r", buffering=-1, encoding=None, errors=None, newline=None, closefd=True, opener=None):
        fs = _active
        if fs is None or opener is not None or not closefd or not fs.wants(file):
            return REAL_OPEN(file, mode, buffering, encoding, errors, newline, closefd, opener)
        rel = fs.rel(file)
        cut = fs.before("open", rel + ":" + mode, 0)
        if cut is not None:
            if cut[0] == "crash":
                fs.kill()
                raise SimCrash()
            raise _oserror(cut[0], file)
        binary, rawmode = _parse_mode(mode)
        raw = FaultyRaw(fs, os.fspath(file), rawmode, rel)
        if buffering == 0:
            if not binary:
                raise ValueError("can't have unbuffered text I/O")
            return raw
        bs = buffering if buffering > 1 else io.DEFAULT_BUFFER_SIZE
        if "+" in rawmode:
            buf = io.BufferedRandom(raw, bs)
        elif "r" in rawmode:
            buf = io.BufferedReader(raw, bs)
        else:
            buf = io.BufferedWriter(raw, bs)
        if binary:
            return buf
        text = io.TextIOWrapper(buf, encoding, errors, newline, buffering == 1)
        text.mode = mode
        return text

    builtins.open = open_
    io.open = open_

    def replace(src, dst, **k):
        fs = _active
        if fs is None or not fs.wants(dst):
            return REAL_REPLACE(src, dst, **k)
        cut = fs.before("replace", fs.rel(src) + "->" + fs.rel(dst), 0)
        if cut is not None:
            if cut[0] == "crash":
                fs.kill()
                raise SimCrash()
            raise _oserror(cut[0], dst)
        return REAL_REPLACE(src, dst, **k)

    def rename(src, dst, **k):
        fs = _active
        if fs is None or not fs.wants(dst):
            return REAL_RENAME(src, dst, **k)
        cut = fs.before("rename", fs.rel(src) + "->" + fs.rel(dst), 0)
        if cut is not None:
            if cut[0] == "crash":
                fs.kill()
                raise SimCrash()
            raise _oserror(cut[0], dst)
        return REAL_RENAME(src, dst, **k)

    def _mk_remove(real):
        def remove(path, **k):
            fs = _active
            if fs is None or not fs.wants(path):
                return real(path, **k)
            cut = fs.before("remove", fs.rel(path), 0)
            if cut is not None:
                if cut[0] == "crash":
                    fs.kill()
                    raise SimCrash()
                raise _oserror(cut[0], path)
            return real(path, **k)
        return remove

    os.replace = replace
    os.rename = rename
    prev_remove, prev_unlink = os.remove, os.unlink  # may already be the SQL shim's seams
    os.remove = _mk_remove(prev_remove)
    os.unlink = _mk_remove(prev_unlink)

    def scandir(path="."):
        fs = _active
        if fs is None or isinstance(path, int) or not fs.wants(path):
            return REAL_SCANDIR(path)
        rel = fs.rel(path)
        cut = fs.before("scandir", rel, 0)
        if cut is not None and cut[0] != "crash":
            raise _oserror(cut[0], path)
        it = REAL_SCANDIR(path)
        entries = list(it)
        it.close()
        names = sorted(e.name for e in entries)
        order = fs.scandir_order(rel, names) if fs.scandir_order else names
        by = {e.name: e for e in entries}
        return _ScandirIter([by[n] for n in order])

    os.scandir = scandir


class _ScandirIter:
    def __init__(self, entries):
        self._it = iter(entries)

    def __iter__(self):
        return self

    def __next__(self):
        return next(self._it)

    def close(self):
        pass

    def __enter__(self):
        return self

    def __exit__(self, *a):
        return False
